#!/usr/bin/env python3
"""agent_prompt.py <property id> <worktree> [focus text] : the prompt given to an independent sub-agent that seeds a change.
The agent sees the property's text (title, statement, quantifier) and its own scratch worktree of /repo - nothing from /verif."""
import json, sys

pid, wt = sys.argv[1], sys.argv[2]
focus = sys.argv[3] if len(sys.argv) > 3 else ""
prop = next(json.loads(l) for l in open("/verif/properties.jsonl") if json.loads(l)["id"] == pid)
text = f"{pid}: {prop['title']}\n\nStatement: {prop['statement']}\n\nQuantified over: {prop['quantifier']['text']}\n"
if focus:
    focus = ("\nTo spread independent attempts over the mechanism, put your change in or around this part of it (if you find that "
             f"impossible, say why and pick the nearest part): {focus}\n")
print(f"""You are given your own scratch git worktree of the C++17 library accosmin-org/libnano at {wt} (detached HEAD). Work ONLY inside {wt}. Never read or write /repo or /verif (they are off limits), never commit anything.

Here is a semantic property that the library is supposed to satisfy:

{text}
Your task: design ONE realistic change to the library sources (files under src/ or include/ only) that BREAKS this property while the library still compiles and the existing unit-test suite still passes - and make it as HARD TO DETECT as you can while still being able to demonstrate it. Think of a slip a maintainer could plausibly make and a reviewer could plausibly approve: a refactoring mistake, an "optimisation" with a wrong fast path, an off-by-one at a boundary, a dropped or misplaced lock / notify / flag, a wrong index in bookkeeping, a validation that became too weak, state that became shared where it should be per thread or per call, a cache that is not invalidated. The change MUST need something specific in order to manifest: a particular thread interleaving, a fault or truncation at a particular point, a multi-step sequence of operations, a rare but legal input or configuration (a boundary value, a particular combination of two options), or two cooperating sites that each look fine alone. Do NOT produce a change that ordinary use or the existing tests would expose at once.
{focus}
How to build and test (no network; disk is limited, so do not use debug info):
  cd {wt} && cmake -G Ninja -B build -DCMAKE_BUILD_TYPE=Release -DNANO_BUILD_CMD_APP=OFF && cmake --build build -j4 && ctest --test-dir build -j4 --timeout 900
(the full build takes several minutes; tests test_program_linear and test_program_quadratic are known to be flaky and may be ignored). You can build a demo program against the libraries in build/src (see how test/CMakeLists.txt links tests: libraries core, function, program, solver, machine, linear; include dirs include/ and build/). Set TMPDIR to a directory inside {wt} when you run anything (the library writes log files to the temporary directory).

Deliver, under {wt}/_seeded/<short-name>/ :
  1. patch.diff  - `git diff` of the library change against HEAD (library sources only; must apply with `git apply` on a clean checkout)
  2. demo.cpp + build.sh (compiles demo.cpp against the build tree in <worktree>/build and runs it) - a small standalone demonstration that exits non-zero WITH the change and exits zero WITHOUT it. For schedule-dependent bugs the demo may loop, use many threads, sleeps/yields or a sanitizer to make the failure likely; state roughly how likely it is to fail per run.
  3. README.md   - which clause of the property is broken, what exactly is needed for the bug to manifest, and what you ran (ctest summary with the change applied: number of tests passed/failed; demo result with and without the change).

Requirements you must verify yourself before finishing: (a) with the change applied the project compiles and the existing test suite passes (apart from the two known-flaky tests); (b) the demo fails with the change and passes without it. When done, restore the worktree sources to a clean state (`git checkout -- .`, keep only the untracked _seeded/ directory), and delete the build directory (rm -rf build) to free disk space. Finish with a short summary.""")
