"""Per-property configuration of /verif/check: harness, batches per tier, shrink knobs, evidence texts."""

REAL_COMMON = [
    "all of libnano as built by its own CMake from /repo's working tree (static archives linked unchanged)",
    "Eigen, libstdc++ (mutex, condition_variable, thread, future/packaged_task, call_once logic above the pthread/futex ABI, iostreams)",
]
STUB_COMMON = [
    "kernel/glibc side of pthread_mutex_*, pthread_cond_*, pthread_create/join, pthread_once, futex wait/wake: replaced by the simulator's model (sim/simrt.cpp)",
    "get_nprocs (core count), std::random_device (entropy), clock_gettime/time/gettimeofday (clocks), sleeps: simulated",
]
ASSUME_COMMON = [
    "interleavings are explored at synchronisation-point granularity under sequential consistency; weak-memory effects are left to ThreadSanitizer's happens-before analysis on the explored paths",
    "link-time interposition relies on the libstdc++ 12 / glibc 2.36 ABI of this image; asserted by harness/selftest.cpp at the start of every check",
    "a clean batch is evidence over the explored seeds, not a proof",
]

PROPS = {
    "C17": {
        "harness": "c17_pool",
        "level": "exploration",
        "rule": ("one run = one seeded workload (pool size, 1-4 submitters incl. workers of an outer pool, 1-6 map/map-chunk/enqueue operations each, "
                 "throwing operators, abandoned futures, shutdown idle/busy/with queued tasks) executed by the real pool under one seeded schedule "
                 "(uniform / PCT / sticky / stall) with injected spurious wake-ups, arbitrary notify_one victims and spurious futex returns; "
                 "non-trivial = at least 2 simulated threads and 1 context switch; distinct = distinct trace hash"),
        "batches": [
            {"name": "plain", "cfg": "plain", "tiers": ["quick", "thorough"], "runs": {"quick": 40000, "thorough": 1500000},
             "wall_cap": {"quick": 150, "thorough": 1500}},
            {"name": "tsan", "cfg": "tsan", "tiers": ["quick", "thorough"], "runs": {"quick": 6000, "thorough": 200000},
             "extra": ["--set", "max_pool=6", "--set", "max_elements=300"], "wall_cap": {"quick": 150, "thorough": 1500}},
            {"name": "asan", "cfg": "asan", "tiers": ["quick", "thorough"], "runs": {"quick": 10000, "thorough": 300000},
             "wall_cap": {"quick": 150, "thorough": 1500}},
        ],
        "gate": {"quick": 60, "thorough": 500},
        "shrink": [("allow_throw", 0), ("allow_yield", 0), ("allow_abandon", 0), ("submitters", 1), ("max_ops", 1), ("max_elements", 2),
                   ("pool_req", 1), ("pool_req", 2), ("cores", 2), ("sim_faults", 0), ("p_spurious_ppm", 0), ("p_eagain_ppm", 0), ("scenario", 0)],
        "expected_probes": ["rt_notify_without_waiter", "rt_wait_after_missed_notify", "rt_mutex_contended", "rt_futex_blocked", "rt_thread_late_start",
                            "rt_preempt_in_condwait", "rt_join_blocked", "rt_spurious_wake", "queued_task_dropped_by_shutdown",
                            "destructor_entered_while_task_runs", "calls_overlapped_in_time", "submitters_are_outer_pool_workers",
                            "exception_rethrown_in_caller", "exception_swallowed_as_asked", "map_used_several_workers", "pool_request_clamped"],
        "real": REAL_COMMON + ["nano::parallel::pool_t, queue_t, worker_t, section_t (include/nano/core/parallel.h, src/core/parallel.cpp)"],
        "stub": STUB_COMMON,
        "assumptions": ASSUME_COMMON + [
            "a nested blocking map() on the same pool from one of its own tasks is not generated (documented limitation of a fixed-size pool, not part of the statement)",
            "on the sequential path (pool of one worker, or a single task) an exception ends the caller's loop at once; the remaining indices are not demanded",
            "exhaustive interleaving enumeration of a protocol model (first half of the quantifier) is model checking and not part of this check",
        ],
    },
    "C15": {
        "harness": "c15_stream",
        "level": "fault_enumeration",
        "rule": ("one run = one randomly configured or fitted object (tensor of 10 scalar types x rank 1-5, parameter of 6 kinds + empty, feature, every id of the "
                 "solver/loss/splitter/tuner/line-search/weak-learner factories with randomised parameters, fitted weak learners, fitted linear and "
                 "gradient-boosting models) written through the simulated storage layer; evaluations = stream reads performed: 3 round trips with PRNG "
                 "reader chunking, EVERY truncation offset of the object twice (clean EOF / I/O error; exhaustive per object), torn writes + restart, "
                 "one (quick) or all eight single-bit (thorough) flips of tensor payload bytes located through the writer's call log, flips of tensor header "
                 "bytes; distinct_nontrivial = distinct serialized objects of at least 8 bytes whose truncation enumeration completed"),
        "batches": [
            {"name": "asan", "cfg": "asan", "tiers": ["quick", "thorough"], "runs": {"quick": 1600, "thorough": 60000},
             "extra_by_tier": {"thorough": ["--set", "thorough=1"]}, "wall_cap": {"quick": 200, "thorough": 2400}},
            {"name": "plain", "cfg": "plain", "tiers": ["quick", "thorough"], "runs": {"quick": 4000, "thorough": 200000},
             "extra_by_tier": {"thorough": ["--set", "thorough=1"]}, "wall_cap": {"quick": 200, "thorough": 2400}},
        ],
        "gate": {"quick": 60, "thorough": 300},
        "shrink": [],
        "expected_probes": ["objects", "roundtrip_into_used_object", "truncation_offsets_enumerated", "tensor_payload_regions", "payload_hash_confirmed_independently",
                            "rejected_by_exception", "rejected_by_stream_state", "wlearner_fitted", "linear_fitted", "gboost_fitted",
                            "gboost_with_weak_learners", "header_flip_rejected", "writer_reported_disk_full"],
        "real": REAL_COMMON + ["every read()/write() member and nano::read/nano::write overload (tensors, parameters, features, configurables, weak learners, models), "
                               "the fits that produce the models (one simulated core: inline)"],
        "stub": STUB_COMMON + ["the byte store behind std::streambuf (sim/simfs.h): unbuffered logging sink with capacity faults, chunked source with truncation (EOF or error) and byte flips"],
        "assumptions": ASSUME_COMMON + [
            "truncation is exhaustive per generated object, the set of objects is sampled",
            "bytes outside tensors are not corrupted: the statement demands nothing there and a desynchronised parse can ask for a 4 GB string (slow, not unsafe)",
            "observational identity = byte-identical re-serialization plus bit-identical predictions on the dataset the model was fitted on",
        ],
    },
    "C13": {
        "harness": "c13_tune",
        "level": "exploration",
        "rule": ("one run = either tuner_t::optimize on 1-3 seeded grids (2-31 values, linear/log10) with a seeded landscape (bowl, plateaus, ties, corner minimum, "
                 "noise) and optionally one injected NaN/inf evaluation, or ml::tune with its internal thread pool under one seeded schedule: 0-3 grids, both "
                 "tuners, k-fold/random splitters with 2-10 folds, callbacks that record their arguments, yield 0-3 times to the scheduler, return per-invocation "
                 "unique error/loss tensors and a payload, with one optional fault (NaN, +inf, -inf, exception) attached to one invocation; non-trivial = at "
                 "least 2 simulated threads and 1 context switch; distinct = distinct trace hash"),
        "batches": [
            {"name": "plain", "cfg": "plain", "tiers": ["quick", "thorough"], "runs": {"quick": 16000, "thorough": 1200000},
             "wall_cap": {"quick": 200, "thorough": 2400}},
            {"name": "tsan", "cfg": "tsan", "tiers": ["quick", "thorough"], "runs": {"quick": 3200, "thorough": 200000},
             "extra": ["--set", "max_cores=6"], "wall_cap": {"quick": 200, "thorough": 2400}},
            {"name": "asan", "cfg": "asan", "tiers": ["quick", "thorough"], "runs": {"quick": 3200, "thorough": 200000},
             "wall_cap": {"quick": 200, "thorough": 2400}},
        ],
        "gate": {"quick": 60, "thorough": 500},
        "shrink": [("inject", 0), ("max_yields", 0), ("spaces", 1), ("spaces", 0), ("folds", 2), ("samples", 6), ("max_evals", 10), ("cores", 2),
                   ("sim_faults", 0), ("p_spurious_ppm", 0), ("p_eagain_ppm", 0)],
        "expected_probes": ["tune_runs", "tune_with_several_trials", "tuner_direct_runs", "tuner_used_before", "callbacks_overlapped_in_time", "four_or_more_callbacks_in_flight",
                            "callback_exception_propagated", "callback_nonfinite_rejected", "nonfinite_rejected", "budget_overshoot_within_allowance",
                            "rt_futex_blocked", "rt_mutex_contended", "rt_spurious_wake"],
        "real": REAL_COMMON + ["tuner_t::optimize (local-search, surrogate), nano::evaluate / local_search, ml::tune and its internal pool_t, ml::result_t, splitters"],
        "stub": STUB_COMMON + ["the model callback (harness landscape instead of a model fit)"],
        "assumptions": ASSUME_COMMON + [
            "splitters are trusted to be deterministic functions of (samples, folds, seed) (C12): the harness recomputes the expected folds with the same splitter",
            "without parameter spaces no tuner is involved, so a non-finite callback value need not be rejected there",
            "a lost update on a plain double cannot happen under a serialising scheduler: such races are decided by ThreadSanitizer inside the simulated run",
        ],
    },
    "C18": {
        "harness": "c18_shared",
        "level": "exploration",
        "rule": ("one run = one scenario under one seeded schedule: (0) 2-8 simulated threads minimise their own functions (every evaluation is a schedule point) "
                 "on ONE shared solver instance of a deterministic solver type with random line-search pairing, (1) 2-8 threads call value/vgrad/error of one shared "
                 "loss on shared tensors, (2) 2-8 threads use one shared dataset through flatten/select/targets with their own buffers and through their own "
                 "iterators over the shared dataset pool, (3) 2-6 threads call predict and evaluate on one shared fitted linear / gradient-boosting model with dataset "
                 "pools of 1, 2, 3, 16 workers and several evaluation batches, (4) a complete fit() of a linear (ordinary, ridge) or gradient-boosting model under a "
                 "simulated core count and schedule compared with the same fit on one core; oracle = bit-identity with the same call alone (0-3), same selected features "
                 "and predictions within 1e-5 relative (4), no deadlock state, no ThreadSanitizer report; non-trivial = at least 2 simulated threads and 1 context switch; "
                 "distinct = distinct trace hash"),
        "batches": [
            {"name": "plain", "cfg": "plain", "tiers": ["quick", "thorough"], "runs": {"quick": 10000, "thorough": 500000},
             "wall_cap": {"quick": 240, "thorough": 3000}},
            {"name": "tsan", "cfg": "tsan", "tiers": ["quick", "thorough"], "runs": {"quick": 2400, "thorough": 100000},
             "extra": ["--set", "max_cores=6"], "wall_cap": {"quick": 240, "thorough": 3000}},
            {"name": "asan", "cfg": "asan", "tiers": ["quick", "thorough"], "runs": {"quick": 2400, "thorough": 100000},
             "wall_cap": {"quick": 240, "thorough": 3000}},
        ],
        "gate": {"quick": 44, "thorough": 300},
        "shrink": [("threads", 2), ("pool", 1), ("pool", 2), ("big", 0), ("cores", 2), ("sim_faults", 0), ("p_spurious_ppm", 0), ("p_eagain_ppm", 0)],
        "expected_probes": ["solver_runs", "solver_line_search", "solver_other", "loss_runs", "dataset_runs", "dataset_pool_shared_by_submitters", "model_runs",
                            "model_linear", "model_gboost", "evaluate_with_several_batches_and_small_inner_batch", "fit_runs", "fit_linear", "fit_gboost",
                            "solver_shared_before_any_serial_call", "rt_mutex_contended", "rt_futex_blocked"],
        "real": REAL_COMMON + ["solver_t::minimize of every deterministic solver id with the registered line-search objects, every loss, dataset_t + generators + iterators, "
                               "linear_t / gboost_model_t fit, predict, evaluate, ml::tune, weak learners"],
        "stub": STUB_COMMON + ["the functions minimised in scenario 0 (harness quadratics / piecewise-linear / Rosenbrock-like functions that yield inside do_vgrad)"],
        "assumptions": ASSUME_COMMON + [
            "the four gradient-sampling solvers draw entropy by design and are excluded from 'deterministic solver types'",
            "dataset_t::drop/shuffle are const-qualified but mutate and are never called concurrently (outside the quantifier)",
            "scenario 4 uses well-conditioned setups (standardised inputs, tight solver tolerance) and 1e-4 for linear models: never stricter than the statement",
            "code without a synchronisation operation or harness yield inside it cannot be pre-empted by the simulator: unsynchronised sharing there is decided by ThreadSanitizer, not by a wrong value",
        ],
    },
    "C09": {
        "harness": "c09_objective",
        "level": "exploration",
        "rule": ("one run = one seeded dataset (1-200 samples, 1-10 mixed features with missing values, regression / single-label / multi-label / structured "
                 "targets), one loss of the matching family, one objective (linear with l1,l2 in {0} u [1e-6,1e6] and one of 4 scaling modes; gradient-boosting "
                 "bias, scale with random clusters incl. unassigned samples, per-sample gradients) and one parameter vector, evaluated under 3-5 configurations "
                 "(simulated cores 1-16, dataset pool 1-16, batch 1-10000, cached or uncached inputs/targets, and a history of 0-4 earlier calls on the same "
                 "function object - with or without gradient, at other points) under one seeded schedule with a loss that yields "
                 "inside every call; evaluations = configurations evaluated; every value and gradient is compared (1e-9 relative) with the per-sample definition "
                 "computed from the direct dataset views, and configurations pairwise; non-trivial = at least 2 simulated threads and 1 context switch; distinct = "
                 "distinct trace hash"),
        "batches": [
            {"name": "plain", "cfg": "plain", "tiers": ["quick", "thorough"], "runs": {"quick": 40000, "thorough": 2000000},
             "wall_cap": {"quick": 200, "thorough": 2400}},
            {"name": "tsan", "cfg": "tsan", "tiers": ["quick", "thorough"], "runs": {"quick": 6000, "thorough": 300000},
             "extra": ["--set", "max_cores=6"], "wall_cap": {"quick": 200, "thorough": 2400}},
            {"name": "asan", "cfg": "asan", "tiers": ["quick", "thorough"], "runs": {"quick": 8000, "thorough": 300000},
             "wall_cap": {"quick": 200, "thorough": 2400}},
        ],
        "gate": {"quick": 60, "thorough": 500},
        "shrink": [("configs", 2), ("max_samples", 10), ("cores", 2), ("sim_faults", 0), ("p_spurious_ppm", 0), ("p_eagain_ppm", 0)],
        "expected_probes": ["configurations", "configurations_through_the_pool", "configurations_cached", "configurations_after_earlier_calls", "mode_linear",
                            "mode_bias", "mode_scale", "mode_grads", "rt_futex_blocked", "rt_mutex_contended"],
        "real": REAL_COMMON + ["linear::function_t, gboost::{bias,scale,grads}_function_t, flatten/targets iterators with caches, pool_t::map partitioning, sum_reduce, "
                               "every registered loss (behind a yielding wrapper)"],
        "stub": STUB_COMMON,
        "assumptions": ASSUME_COMMON + [
            "trusted for this property (decided elsewhere or not by this family): single-sample loss kernels (C06), the dense encodings of dataset_t::flatten/targets (C08), the scaling arithmetic of scalar_stats_t::scale (C14)",
            "schemas whose inputs flatten to zero columns (a single one-class categorical feature) are skipped",
        ],
    },
    "C10": {
        "harness": "c10_wlearner",
        "level": "exploration",
        "rule": ("one run = one seeded dataset (2-60 samples, 1-8 scalar / single-label / multi-label features with missing values and ties, 1-6 outputs), an arbitrary "
                 "gradient tensor, a sample subset with or without repetition, one of the 8 registered weak learners and one of the 4 criteria; the learner is fitted on "
                 "one simulated core and again through the dataset pool (1-16 workers) under the run's simulated core count and seeded schedule; oracles: schedule "
                 "differential (score, selected feature, predictions), brute force over the hypothesis class with the RSS criterion (stump, hinge, affine, dense table, "
                 "discrete step), and the consistency clauses (additive, zero when missing, per-sample, table of the split() group, scale, merge, depth-1 tree == stump); "
                 "non-trivial = at least 2 simulated threads and 1 context switch; distinct = distinct trace hash"),
        "batches": [
            {"name": "plain", "cfg": "plain", "tiers": ["quick", "thorough"], "runs": {"quick": 40000, "thorough": 2000000},
             "wall_cap": {"quick": 200, "thorough": 2400}},
            {"name": "tsan", "cfg": "tsan", "tiers": ["quick", "thorough"], "runs": {"quick": 6000, "thorough": 300000},
             "extra": ["--set", "max_cores=6"], "wall_cap": {"quick": 200, "thorough": 2400}},
            {"name": "asan", "cfg": "asan", "tiers": ["quick", "thorough"], "runs": {"quick": 8000, "thorough": 300000},
             "wall_cap": {"quick": 200, "thorough": 2400}},
        ],
        "gate": {"quick": 60, "thorough": 500},
        "shrink": [("pool", 2), ("cores", 2), ("sim_faults", 0), ("p_spurious_ppm", 0), ("p_eagain_ppm", 0)],
        "expected_probes": ["fits_through_the_pool", "fit_on_a_learner_fitted_before", "brute_force_compared", "fitted_stump", "fitted_hinge", "fitted_affine", "fitted_dense-table", "fitted_dstep-table",
                            "fitted_kbest-table", "fitted_ksplit-table", "fitted_dtree", "single_feature_clauses", "scale_per_group", "scale_scalar",
                            "merge_merged_something", "depth1_tree_vs_stump", "rt_futex_blocked"],
        "real": REAL_COMMON + ["all 8 weak learners (fit through select_iterator_t / the dataset pool, per-worker caches, min_reduce), predict, split, scale, wlearner::merge"],
        "stub": STUB_COMMON,
        "assumptions": ASSUME_COMMON + [
            "feature values for the brute-force reference come from dataset_t::select called directly on one core (C08)",
            "the 'predictions reproduce the reported RSS' clause is stated for stump, hinge, affine, dense table and discrete step only; k-best / k-split tables and trees are decided by the schedule differential and the consistency clauses",
            "learners that reject per-group scale factors are only checked with a scalar factor",
        ],
    },
    "C11": {
        "harness": "c11_fit",
        "level": "exploration",
        "rule": ("one run = one complete fit() of a linear (4 regularisers, 4 scaling modes) or gradient-boosting model (random weak-learner pools, shrinkage "
                 "off/global/local, 6 subsampling modes, gboost/tboost scaling, max_rounds 10-18, patience 1-4, epsilon 1e-8..1e-2) on a seeded dataset with a loss "
                 "of the matching family, both tuners, k-fold / random splitters with 2-5 folds, executed under the run's simulated core count (1-16), dataset pool "
                 "(1-16) and seeded schedule; afterwards every (trial, fold) and the final statistics are recomputed by predicting with the stored models; fit samples are all samples, "
                 "a subset, or either in shuffled order; for 35 % of the boosting fits the same fit is repeated on one core with max_rounds and with "
                 "max_rounds + patience + k, and the statement's monitor replayed on the longer per-round history (cut at the shorter budget) names the round "
                 "the shorter fit must keep; "
                 "non-trivial = at least 2 simulated threads and 1 context switch; distinct = distinct trace hash"),
        "batches": [
            {"name": "plain", "cfg": "plain", "tiers": ["quick", "thorough"], "runs": {"quick": 16000, "thorough": 800000},
             "wall_cap": {"quick": 240, "thorough": 3000}},
            {"name": "tsan", "cfg": "tsan", "tiers": ["quick", "thorough"], "runs": {"quick": 1600, "thorough": 80000},
             "extra": ["--set", "max_cores=6"], "wall_cap": {"quick": 240, "thorough": 3000}},
            {"name": "asan", "cfg": "asan", "tiers": ["quick", "thorough"], "runs": {"quick": 2400, "thorough": 80000},
             "wall_cap": {"quick": 240, "thorough": 3000}},
        ],
        "gate": {"quick": 44, "thorough": 300},
        "shrink": [("folds", 2), ("pool", 1), ("cores", 2), ("max_samples", 24), ("sim_faults", 0), ("p_spurious_ppm", 0), ("p_eagain_ppm", 0)],
        "expected_probes": ["linear_fits", "gboost_fits", "fits_with_several_trials", "fold_statistics_recomputed", "fold_models_with_boosting_rounds",
                            "fold_models_stopped_early", "fit_samples_in_arbitrary_order", "longer_history_differentials",
                            "longer_history_reaches_the_shorter_budget", "rt_futex_blocked", "rt_mutex_contended"],
        "real": REAL_COMMON + ["linear_t::fit / gboost_model_t::fit end to end: ml::tune and its pool, tuners, splitters, solvers, early stopping, gboost::result_t, "
                               "weak learner fit / merge / scale, ml::result_t store / statistics"],
        "stub": STUB_COMMON,
        "assumptions": ASSUME_COMMON + [
            "SCOPE: the sentence of C11 about the early-stopping monitor 'for every history of error values' is a pure function of the history; enumerating histories "
            "against a reference monitor would be input enumeration, not simulation, and is NOT done. The monitor is checked only through the coupling 'stored snapshot "
            "statistics == statistics recomputed from the learners the fold model kept' and the necessary conditions on the kept per-round history of real fits",
            "order statistics of the recomputed per-sample values use the library's own store_stats (C20); splitters are recomputed with the same splitter (C12)",
            "gradient-boosting fold statistics are compared at 1e-8 (incrementally accumulated outputs vs a fresh prediction), everything else at 1e-9",
        ],
    },
    "C08": {
        "harness": "c08_views",
        "level": "exploration",
        "rule": ("one run = a seeded data source (1-12 features over all 12 feature types, structured dims up to 3x3x2, 1-300 classes with the storage boundaries "
                 "255/256/257, 1-200 samples, arbitrary missing-value masks, target of any type or absent), a generator stack (four identity generators, each over all "
                 "features or a subset, the pairwise product, the gradient generator over image-shaped structured features), a dataset pool of 1-16 workers and a HISTORY of 3-12 operations: direct flatten / targets / select "
                 "with index lists that repeat, reverse and touch N-1; flatten / select iterators through the pool whose callbacks yield before reading the per-thread "
                 "buffer; drop, shuffle (entropy seam), reset; boundary probes (index N, -1, beyond N, around 2^8..2^63, feature F, -1); a reference model (stored values + drop set + "
                 "reported permutations + independently written encoders) decides every view; non-trivial = at least 2 simulated threads and 1 context switch; "
                 "distinct = distinct trace hash"),
        "batches": [
            {"name": "plain", "cfg": "plain", "tiers": ["quick", "thorough"], "runs": {"quick": 60000, "thorough": 3000000},
             "wall_cap": {"quick": 200, "thorough": 2400}},
            {"name": "tsan", "cfg": "tsan", "tiers": ["quick", "thorough"], "runs": {"quick": 8000, "thorough": 300000},
             "extra": ["--set", "max_cores=6"], "wall_cap": {"quick": 200, "thorough": 2400}},
            {"name": "asan", "cfg": "asan", "tiers": ["quick", "thorough"], "runs": {"quick": 12000, "thorough": 400000},
             "wall_cap": {"quick": 200, "thorough": 2400}},
        ],
        "gate": {"quick": 60, "thorough": 500},
        "shrink": [("ops", 3), ("max_samples", 10), ("pool", 1), ("pool", 2), ("cores", 2), ("sim_faults", 0), ("p_spurious_ppm", 0), ("p_eagain_ppm", 0)],
        "expected_probes": ["op_direct_flatten", "op_direct_targets", "op_direct_select", "op_iterator_flatten", "op_iterator_select", "op_drop", "op_shuffle",
                            "op_reset", "op_boundary_probe", "gradient_features", "rt_futex_blocked"],
        "real": REAL_COMMON + ["datasource_t storage / masks, the identity, pairwise-product and gradient generators, dataset_t bookkeeping, flatten / targets / select, "
                               "drop / shuffle / undrop / unshuffle, flatten and select iterators with caches over the dataset pool"],
        "stub": STUB_COMMON + ["std::random_device behind generator_t::shuffle: the seeded entropy seam (the permutation is replayable)"],
        "assumptions": ASSUME_COMMON + [
            "only the iterator / pool clauses and the shuffle entropy depend on a schedule or seed; the encoding and range-check clauses ride along because the history generator produces schemas and index lists anyway",
            "drop after shuffle (or shuffle after drop) of the SAME feature and undrop / unshuffle in isolation are not generated: the statement does not say what either does to the other's flags",
            "gradient features have no independent reference encoder: their reference is their own direct per-feature view captured before the history starts, which every later view (flatten, iterators, any index list, drop / shuffle / undo, any simulated worker) must reproduce bit for bit - the statement's 'per-feature view and flattened view agree' clause",
            "the library requires a target value for every sample, so targets are never missing",
            "iterator outputs with scaling 'none' map missing values to zero (C14); direct views keep NaN / -1",
        ],
    },
}
