#!/bin/bash
# run_seeded.sh [ids...] : apply each seeded change to /repo, run the property's quick check, restore /repo, record the outcome
# in seeded/<id>/result.json. Never run two of these (or anything else that edits /repo) at the same time.
set -u
cd /verif
export VERIF_EVIDENCE_DIR=/verif/build/tmp/evidence-mutated
ids=("$@"); [ ${#ids[@]} -eq 0 ] && ids=($(ls seeded))
for id in "${ids[@]}"; do
  d="seeded/$id"; prop="${id%%-*}"
  git -C /repo diff --quiet || { echo "/repo has local changes: refusing"; exit 2; }
  git -C /repo apply "/verif/$d/patch.diff" || { echo "$id: patch does not apply"; continue; }
  t0=$(date +%s)
  ./check "$prop" --tier quick > "/verif/build/tmp/seeded-$id.log" 2>&1; rc=$?
  t1=$(date +%s)
  git -C /repo checkout -- .
  classes=$(grep -o "^violation class=[^ ]*" "/verif/build/tmp/seeded-$id.log" | sort | uniq -c | tr '\n' ';')
  nviol=$(grep -c "^VIOLATION" "/verif/build/tmp/seeded-$id.log")
  python3 - "$d" "$rc" "$((t1-t0))" "$classes" "$nviol" <<'PY'
import json,sys
d,rc,secs,classes,nviol=sys.argv[1:6]
json.dump({"check":"./check %s --tier quick"%d.split('/')[1].split('-')[0],"exit":int(rc),"detected":int(rc)==1,"violation_lines":int(nviol),"classes":classes,"wall_s":int(secs)},open(d+"/result.json","w"),indent=1)
PY
  echo "$id exit=$rc violations=$nviol [$classes] ${t1}-${t0}"
done
# leave the build trees in the state of the unchanged repository
for c in plain tsan asan; do scripts/build.sh $c >/dev/null 2>&1; done
