#!/bin/bash
# verify_seeded.sh <worktree> : for every <worktree>/_seeded/<name>/ confirm that the change applies, compiles, passes the
# existing test suite, and that its demonstration fails with the change and passes without it. Writes verify.log next to it.
set -u
wt="$1"
cd "$wt" || exit 2
git checkout -- . 2>/dev/null
export CCACHE_DIR=/verif/build/ccache-verify CCACHE_MAXSIZE=8G
build() { cmake -G Ninja -B build -DCMAKE_BUILD_TYPE=Release -DNANO_BUILD_CMD_APP=OFF -DCMAKE_CXX_COMPILER_LAUNCHER=ccache >/dev/null 2>&1 && cmake --build build -j12 >/tmp/verify_build_$$.log 2>&1; }
build || { echo "baseline build failed"; tail -20 /tmp/verify_build_$$.log; exit 2; }
for d in _seeded/*/; do
  name=$(basename "$d"); log="$d/verify.log"; : > "$log"
  echo "== $name" | tee -a "$log"
  LD_LIBRARY_PATH=build/src bash "$d/build.sh" >"$d/verify_demo_without.txt" 2>&1; rc0=$?
  echo "demo without change: exit $rc0" | tee -a "$log"
  git apply "$d/patch.diff" || { echo "patch does not apply" | tee -a "$log"; continue; }
  if build; then
    ctest --test-dir build -j8 --timeout 900 2>&1 | grep -E "tests passed|tests failed|Failed|\*\*\*" | tee -a "$log"
    LD_LIBRARY_PATH=build/src bash "$d/build.sh" >"$d/verify_demo_with.txt" 2>&1; rc1=$?
    echo "demo with change: exit $rc1" | tee -a "$log"
  else
    echo "build with change FAILED" | tee -a "$log"; tail -5 /tmp/verify_build_$$.log | tee -a "$log"
  fi
  git checkout -- .
  [ "$(ls -d _seeded/*/ | tail -1)" = "$d" ] || build
done
rm -rf build /tmp/verify_build_$$.log
