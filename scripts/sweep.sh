#!/bin/bash
# sweep.sh "<seeds>" [properties...] : run the quick checks with several seeds on the current /repo tree (false-alarm hunt)
seeds="$1"; shift
props="${*:-C08 C09 C10 C11 C13 C15 C17 C18}"
cd /verif; mkdir -p build/logs; export VERIF_EVIDENCE_DIR=/verif/build/tmp/evidence-sweep
for s in $seeds; do
  for p in $props; do
    ./check "$p" --tier quick --seed "$s" > "build/logs/sweep_${p}_$s.log" 2>&1
    echo "seed=$s $p rc=$? $(grep -c '^VIOLATION' build/logs/sweep_${p}_$s.log) violation(s) $(grep -c '^KNOWN-FINDING' build/logs/sweep_${p}_$s.log) known"
  done
done
