#!/bin/bash
# build.sh <cfg> [harness targets...] : (re)build libnano from /repo's working tree and the harnesses for one configuration
#   cfg: plain | tsan | asan
set -euo pipefail
cfg="${1:?cfg}"; shift || true
root="$(cd "$(dirname "$0")/.." && pwd)"
repo="${VERIF_REPO:-/repo}"
bdir="$root/build/$cfg"
mkdir -p "$bdir" "$root/build/tmp"
case "$cfg" in
  plain) san="";                                   opt="-O2 -DNDEBUG" ;;
  tsan)  san="-fsanitize=thread";                  opt="-O1 -DNDEBUG" ;;
  asan)  san="-fsanitize=address,undefined -fno-sanitize-recover=undefined -fno-omit-frame-pointer"; opt="-O1 -DNDEBUG" ;;
  *) echo "unknown cfg $cfg" >&2; exit 64 ;;
esac
guard="${VERIF_GUARD_DEFINE:-}"   # e.g. -DNANO_VERIF (no hook needs it today)
exec 9>"$bdir/.lock"
flock 9
export GIT_DIR="$repo/.git"
export CCACHE_DIR="${CCACHE_DIR:-$root/build/ccache}"
if [ ! -f "$bdir/repo/build.ninja" ] || [ "$(cat "$bdir/repo/.src" 2>/dev/null)" != "$repo" ]; then
  rm -rf "$bdir/repo"
  cmake -G Ninja -S "$repo" -B "$bdir/repo" -DCMAKE_BUILD_TYPE=None -DBUILD_SHARED_LIBS=OFF \
        -DNANO_BUILD_TESTS=OFF -DNANO_BUILD_CMD_APP=OFF \
        -DCMAKE_CXX_FLAGS="$opt -g1 $san $guard" >"$bdir/configure-repo.log" 2>&1 || { cat "$bdir/configure-repo.log" >&2; exit 2; }
  echo "$repo" > "$bdir/repo/.src"
fi
cmake --build "$bdir/repo" --target core function program solver machine linear >"$bdir/build-repo.log" 2>&1 || { tail -50 "$bdir/build-repo.log" >&2; exit 2; }
unset GIT_DIR
if [ ! -f "$bdir/harness/build.ninja" ]; then
  cmake -G Ninja -S "$root/harness" -B "$bdir/harness" -DCMAKE_BUILD_TYPE=None -DNANO_SRC="$repo" -DNANO_BIN="$bdir/repo" \
        -DVERIF_SAN="$san" -DVERIF_OPT="$opt $guard" >"$bdir/configure-harness.log" 2>&1 || { cat "$bdir/configure-harness.log" >&2; exit 2; }
fi
if [ $# -gt 0 ]; then
  cmake --build "$bdir/harness" --target "$@" >"$bdir/build-harness.log" 2>&1 || { tail -50 "$bdir/build-harness.log" >&2; exit 2; }
else
  cmake --build "$bdir/harness" >"$bdir/build-harness.log" 2>&1 || { tail -50 "$bdir/build-harness.log" >&2; exit 2; }
fi
