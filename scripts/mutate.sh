#!/bin/bash
# mutate.sh <patch> <property> [check args...] : apply a patch to /repo, run the check, always restore /repo
set -u
patch="$(realpath "$1")"; prop="$2"; shift 2
cd /verif
export VERIF_EVIDENCE_DIR=/verif/build/tmp/evidence-mutated
git -C /repo apply "$patch" || { echo "patch does not apply"; exit 3; }
trap 'git -C /repo checkout -- . ' EXIT
./check "$prop" "$@"
rc=$?
echo "MUTANT $(basename "$patch") property=$prop exit=$rc"
exit $rc
