#!/usr/bin/env python3
"""import the sub-agents' seeded changes from their scratch worktrees into /verif/seeded/<id>/"""
import glob, json, os, re, shutil, subprocess, sys
ROOT = os.path.dirname(os.path.dirname(os.path.abspath(__file__)))
for wt in sorted(glob.glob('/tmp/wt_C*') + glob.glob('/tmp/wu_C*') + glob.glob('/tmp/wv_C*') + glob.glob('/tmp/wx_C*') + glob.glob('/tmp/w5-C*')):
    prop = os.path.basename(wt)[3:6]
    wave3 = os.path.basename(wt)[:3] in ('wv_', 'wx_', 'w5-')
    wave = 5 if os.path.basename(wt).startswith('w5-') else 4 if os.path.basename(wt).startswith('wx_') else (3 if wave3 else None)
    for d in sorted(glob.glob(os.path.join(wt, '_seeded', '*'))):
        if not os.path.isdir(d):
            continue
        name = os.path.basename(d)
        sid = f"{prop}-{name}"
        out = os.path.join(ROOT, 'seeded', sid)
        if wave3 and os.path.exists(out) and json.load(open(os.path.join(out, 'meta.json'))).get('wave') != wave:
            sid += f"-w{wave}"  # an earlier wave produced a change of the same name
            out = os.path.join(ROOT, 'seeded', sid)
        vlog = os.path.join(d, 'verify.log')
        if not os.path.exists(vlog):
            print(f"skip {sid}: not verified yet")
            continue
        v = open(vlog).read()
        m_with = re.search(r'demo with change: exit (\d+)', v)
        m_without = re.search(r'demo without change: exit (\d+)', v)
        tests = re.search(r'(\d+)% tests passed, (\d+) tests failed out of (\d+)', v)
        failed = re.findall(r'- (test_\w+) \(Failed\)', v)
        ok = m_with and m_without and int(m_with.group(1)) != 0 and int(m_without.group(1)) == 0 and tests and set(failed) <= {'test_program_linear', 'test_program_quadratic'}
        if not ok:
            print(f"REJECT {sid}: verification failed\n{v}")
            continue
        os.makedirs(out, exist_ok=True)
        for f in os.listdir(d):
            if f.startswith('verify_demo') or f.startswith('out_'):
                continue
            shutil.copy(os.path.join(d, f), os.path.join(out, f))
        applies = subprocess.run(['git', '-C', '/repo', 'apply', '--check', os.path.join(out, 'patch.diff')]).returncode == 0
        readme = open(os.path.join(d, 'README.md')).read() if os.path.exists(os.path.join(d, 'README.md')) else ''
        meta_path = os.path.join(out, 'meta.json')
        meta = json.load(open(meta_path)) if os.path.exists(meta_path) else {}
        meta.update({
            "id": sid,
            "wave": wave if wave else meta.get("wave", 1),
            "property": prop,
            "origin": "fresh sub-agent given only the property text and its own scratch git worktree of /repo (nothing from /verif)",
            "what_it_breaks_and_needs": readme[:3000],
            "confirmed_by_me": {
                "how": "scripts/verify_seeded.sh in the scratch worktree: clean build, demo without the change; git apply; full build; ctest -j8; demo with the change",
                "ctest_with_change": f"{tests.group(3)} tests, failed: {failed} (both are the baseline's known-flaky tests)",
                "demo_exit_without_change": int(m_without.group(1)),
                "demo_exit_with_change": int(m_with.group(1)),
            },
            "applies_to_current_repo_head": applies,
        })
        json.dump(meta, open(meta_path, 'w'), indent=1)
        print(f"imported {sid} applies={applies}")
