#!/bin/bash
# try_seeded.sh <seeded id or patch file> <harness> <runs per worker> [cfg] : fast development probe - apply one seeded change, rebuild one
# harness in one configuration, run 16 x N seeds, print the violation classes, restore /repo (and its build)
set -u
id="$1"; h="$2"; n="$3"; cfg="${4:-plain}"
cd /verif
git -C /repo diff --quiet || { echo "/repo has local changes: refusing"; exit 2; }
if [ -f "$id" ]; then git -C /repo apply "$(realpath "$id")" || exit 3; else git -C /repo apply "/verif/seeded/$id/patch.diff" || exit 3; fi
trap 'git -C /repo checkout -- .; bash /verif/scripts/build.sh '"$cfg $h"' >/dev/null 2>&1' EXIT
bash scripts/build.sh "$cfg" "$h" 2>&1 | grep -E "error" | head
mkdir -p build/tmp/try
( set +m
  for w in $(seq 0 15); do
    ( TMPDIR=/verif/build/tmp/try TSAN_OPTIONS="suppressions=/verif/sim/tsan.supp halt_on_error=0 report_signal_unsafe=0" \
      build/$cfg/harness/$h --seed0 $((900000 + w * n)) --count "$n" 2>/dev/null | grep "^V " > build/tmp/try/v$w.out ) &
  done; wait ) 2>/dev/null
echo "$id: $(cat build/tmp/try/v*.out | wc -l) violation(s) in $((16 * n)) runs"
cat build/tmp/try/v*.out | python3 -c "
import sys, json, collections
c = collections.Counter(); ex = {}
for l in sys.stdin:
    try: v = json.loads(l[2:])
    except Exception: continue
    c[v['class']] += 1; ex.setdefault(v['class'], v.get('detail', '')[:300])
for k, n in c.most_common(): print(' ', n, k, '|', ex[k])
"
