// F11: the content hash of the tensor stream format (include/nano/core/hash.h) does not see some SINGLE-BIT changes of the payload.
// Searches small double tensors for such a pair with the library's own hash, then writes the tensor with nano::write, flips
// that one bit in the serialized payload and shows that nano::read accepts the stream and returns a different tensor.
//   g++ -std=c++17 -O2 -I/repo/include -I<build dir with nano/version.h> demo.cpp -o demo && ./demo     (header-only use)
#include <cstring>
#include <iostream>
#include <nano/tensor/stream.h>
#include <random>
#include <sstream>

using namespace nano;

int main()
{
    std::mt19937_64 rng(42);
    for (uint64_t trial = 0; trial < 400000000ULL; ++trial)
    {
        tensor_mem_t<double, 1> t(15);
        for (tensor_size_t i = 0; i < t.size(); ++i)
        {
            // ordinary values: uniform in [-4, 4) with full mantissas (as the coefficients of a fitted model have)
            t(i) = static_cast<double>(rng() >> 11) * 0x1.0p-53 * 8.0 - 4.0;
        }
        const auto h0 = detail::hash(t.data(), t.size());
        for (tensor_size_t e = 0; e < t.size(); ++e)
        {
            auto     u = t;
            uint64_t bits;
            std::memcpy(&bits, &u(e), 8);
            bits ^= 1U; // the least significant mantissa bit of one element
            std::memcpy(&u(e), &bits, 8);
            if (detail::hash(u.data(), u.size()) != h0)
            {
                continue;
            }
            std::ostringstream os;
            write(os, t);
            auto bytes = os.str();
            // header: version 4 + rank 4 + dims 4 + sizeof 4 + hash 8 = 24 bytes, then the payload
            bytes[24 + static_cast<size_t>(e) * 8] = static_cast<char>(bytes[24 + static_cast<size_t>(e) * 8] ^ 1);
            std::istringstream      is(bytes);
            tensor_mem_t<double, 1> back;
            const bool              ok = static_cast<bool>(read(is, back));
            std::cout.precision(17);
            std::cout << "trial " << trial << ": flipping the lowest bit of element " << e << " (" << t(e) << " -> " << u(e) << ") keeps the hash " << std::hex << h0
                      << std::dec << "; nano::read " << (ok ? "ACCEPTS" : "rejects") << " the altered stream"
                      << (ok && back(e) != t(e) ? " and returns the altered value\n" : "\n");
            std::cout << "tensor:";
            for (tensor_size_t i = 0; i < t.size(); ++i)
            {
                std::cout << " " << t(i);
            }
            std::cout << "\n";
            return ok ? 1 : 0;
        }
    }
    std::cout << "no colliding pair found\n";
    return 0;
}
