// Deterministic scheduler + fault injector for libnano by interposing the pthread / futex / libc ABI underneath
// libstdc++ at link time. This translation unit is ALWAYS compiled without sanitizer instrumentation: the baton
// that parks and releases threads must be invisible to ThreadSanitizer so that its happens-before graph contains
// only the synchronisation of the program under test.
//
// No STL containers are used here on purpose: an inline template instantiated in this object could be merged
// (COMDAT) with an instrumented copy from another object and make TSan look at the runtime's own state.
#include <atomic>
#include <cerrno>
#include <climits>
#include <cstdarg>
#include <cstdint>
#include <cstdio>
#include <cstdlib>
#include <cstring>
#include <ctime>
#include <dlfcn.h>
#include <linux/futex.h>
#include <pthread.h>
#include <random>
#include <sys/mman.h>
#include <sys/syscall.h>
#include <sys/sysinfo.h>
#include <sys/time.h>
#include <unistd.h>

#include "simrt.h"

extern "C"
{
    void __tsan_acquire(void*) __attribute__((weak));
    void __tsan_release(void*) __attribute__((weak));
}

namespace
{
// ------------------------------------------------------------------------------------------------
// tiny POD vector (internal linkage, never merged with instrumented code)
// Memory comes straight from mmap (raw system call) and is copied with plain loops: malloc/realloc/free and memcpy are
// intercepted by the sanitizer runtimes even when called from this uninstrumented object, and TSan would then see two
// simulated threads "racing" on the runtime's own buffers (its real synchronisation, the baton, is invisible to it).
void* raw_map(size_t bytes);
void  raw_unmap(void* p, size_t bytes);

template <class T>
struct pod_vec
{
    T*     data{nullptr};
    size_t size{0};
    size_t cap{0};

    void push(const T& v)
    {
        if (size == cap)
        {
            const size_t ncap = cap ? cap * 2 : 1024;
            T*           nd   = static_cast<T*>(raw_map(ncap * sizeof(T)));
            for (size_t i = 0; i < size; ++i)
            {
                nd[i] = data[i];
            }
            if (data)
            {
                raw_unmap(data, cap * sizeof(T));
            }
            data = nd;
            cap  = ncap;
        }
        data[size++] = v;
    }

    void clear() { size = 0; }
};

using create_fn    = int (*)(pthread_t*, const pthread_attr_t*, void* (*)(void*), void*);
using join_fn      = int (*)(pthread_t, void**);
using detach_fn    = int (*)(pthread_t);
using mutex_fn     = int (*)(pthread_mutex_t*);
using condwait_fn  = int (*)(pthread_cond_t*, pthread_mutex_t*);
using condtwait_fn = int (*)(pthread_cond_t*, pthread_mutex_t*, const struct timespec*);
using condcwait_fn = int (*)(pthread_cond_t*, pthread_mutex_t*, clockid_t, const struct timespec*);
using cond_fn      = int (*)(pthread_cond_t*);
using syscall_fn   = long (*)(long, ...);
using once_fn      = int (*)(pthread_once_t*, void (*)(void));
using nprocs_fn    = int (*)(void);
using clockget_fn  = int (*)(clockid_t, struct timespec*);
using time_fn      = time_t (*)(time_t*);
using gtod_fn      = int (*)(struct timeval*, void*);
using yield_fn     = int (*)(void);
using nanosleep_fn = int (*)(const struct timespec*, struct timespec*);
using cnsleep_fn   = int (*)(clockid_t, int, const struct timespec*, struct timespec*);
using usleep_fn    = int (*)(useconds_t);
using sleep_fn     = unsigned (*)(unsigned);
using getval_fn    = unsigned int (*)(void*);

template <class F>
F real(const char* name)
{
    void* p = dlsym(RTLD_NEXT, name);
    if (!p)
    {
        fprintf(stderr, "simrt: cannot resolve %s\n", name);
        abort();
    }
    return reinterpret_cast<F>(p);
}

struct reals_t
{
    syscall_fn r_syscall{nullptr};
    create_fn r_pthread_create{nullptr};
    join_fn r_pthread_join{nullptr};
    detach_fn r_pthread_detach{nullptr};
    mutex_fn r_pthread_mutex_lock{nullptr};
    mutex_fn r_pthread_mutex_trylock{nullptr};
    mutex_fn r_pthread_mutex_unlock{nullptr};
    condwait_fn r_pthread_cond_wait{nullptr};
    condtwait_fn r_pthread_cond_timedwait{nullptr};
    condcwait_fn r_pthread_cond_clockwait{nullptr};
    cond_fn r_pthread_cond_signal{nullptr};
    cond_fn r_pthread_cond_broadcast{nullptr};
    once_fn r_pthread_once{nullptr};
    nprocs_fn r_get_nprocs{nullptr};
    clockget_fn r_clock_gettime{nullptr};
    time_fn r_time{nullptr};
    gtod_fn r_gettimeofday{nullptr};
    yield_fn r_sched_yield{nullptr};
    nanosleep_fn r_nanosleep{nullptr};
    cnsleep_fn r_clock_nanosleep{nullptr};
    usleep_fn r_usleep{nullptr};
    sleep_fn r_sleep{nullptr};
    getval_fn r_rd_getval{nullptr};
    bool ready{false};
};

reals_t g_reals;

void init_reals()
{
    g_reals.r_syscall = real<syscall_fn>("syscall");
    g_reals.r_pthread_create = real<create_fn>("pthread_create");
    g_reals.r_pthread_join = real<join_fn>("pthread_join");
    g_reals.r_pthread_detach = real<detach_fn>("pthread_detach");
    g_reals.r_pthread_mutex_lock = real<mutex_fn>("pthread_mutex_lock");
    g_reals.r_pthread_mutex_trylock = real<mutex_fn>("pthread_mutex_trylock");
    g_reals.r_pthread_mutex_unlock = real<mutex_fn>("pthread_mutex_unlock");
    g_reals.r_pthread_cond_wait = real<condwait_fn>("pthread_cond_wait");
    g_reals.r_pthread_cond_timedwait = real<condtwait_fn>("pthread_cond_timedwait");
    g_reals.r_pthread_cond_clockwait = real<condcwait_fn>("pthread_cond_clockwait");
    g_reals.r_pthread_cond_signal = real<cond_fn>("pthread_cond_signal");
    g_reals.r_pthread_cond_broadcast = real<cond_fn>("pthread_cond_broadcast");
    g_reals.r_pthread_once = real<once_fn>("pthread_once");
    g_reals.r_get_nprocs = real<nprocs_fn>("get_nprocs");
    g_reals.r_clock_gettime = real<clockget_fn>("clock_gettime");
    g_reals.r_time = real<time_fn>("time");
    g_reals.r_gettimeofday = real<gtod_fn>("gettimeofday");
    g_reals.r_sched_yield = real<yield_fn>("sched_yield");
    g_reals.r_nanosleep = real<nanosleep_fn>("nanosleep");
    g_reals.r_clock_nanosleep = real<cnsleep_fn>("clock_nanosleep");
    g_reals.r_usleep = real<usleep_fn>("usleep");
    g_reals.r_sleep = real<sleep_fn>("sleep");
    g_reals.r_rd_getval = real<getval_fn>("_ZNSt13random_device9_M_getvalEv");
    g_reals.ready = true;
}

// NB: no function-local statics here: their guards (__cxa_guard_acquire) use futexes through the interposed syscall()
inline reals_t& RF()
{
    if (!g_reals.ready)
    {
        init_reals();
    }
    return g_reals;
}

__attribute__((constructor(101))) void simrt_ctor()
{
    init_reals();
}

long raw_futex(int* addr, int op, int val)
{
    const auto sc = RF().r_syscall;
    return sc(SYS_futex, addr, op, val, nullptr, nullptr, 0);
}

void* raw_map(size_t bytes)
{
    const long p = RF().r_syscall(SYS_mmap, nullptr, bytes, PROT_READ | PROT_WRITE, MAP_PRIVATE | MAP_ANONYMOUS, -1, 0L);
    if (p == -1 || p == 0)
    {
        abort();
    }
    return reinterpret_cast<void*>(p);
}

void raw_unmap(void* p, size_t bytes)
{
    RF().r_syscall(SYS_munmap, p, bytes);
}

enum class st : uint8_t
{
    runnable,
    blk_mutex,
    blk_cond,
    blk_cond_timed,
    blk_futex,
    blk_futex_timed,
    blk_join,
    blk_once,
    finished,
    count
};

// operation classes (for stats.ops and the trace hash)
enum op : int
{
    OP_CREATE = 0,
    OP_START,
    OP_EXIT,
    OP_JOIN,
    OP_LOCK,
    OP_TRYLOCK,
    OP_UNLOCK,
    OP_CWAIT,
    OP_SIGNAL,
    OP_BROADCAST,
    OP_ONCE,
    OP_FWAIT,
    OP_FWAKE,
    OP_YIELD,
    OP_SLEEP,
    OP_CLOCK,
    OP_COUNT
};

const char* const op_names[OP_COUNT] = {"create", "start", "exit",  "join",  "lock",  "trylock", "unlock", "cond-wait",
                                        "signal", "bcast", "once",  "fwait", "fwake", "yield",   "sleep",  "clock"};

constexpr int MAXT = 1024;

struct thr
{
    int              id{0};
    st               state{st::runnable};
    const void*      obj{nullptr}; // what it is blocked on
    std::atomic<int> go{0};        // parking word
    pthread_t        handle{};
    void* (*fn)(void*){nullptr};
    void*    arg{nullptr};
    void*    ret{nullptr};
    bool     started{false};
    bool     timed_out{false};
    bool     detached{false};
    uint64_t created_step{0};
    uint64_t deadline_ns{0};
    uint64_t nchoices{0}; // per-thread choice counter (replay key)
    int64_t  priority{0}; // PCT
};

struct kv
{
    const void* addr;
    int         val;
};

struct decision
{
    uint64_t key; // (tid << 40) | per-thread choice counter
    int      kind;
    int      val;
};

struct rng_t
{
    uint64_t s{0};

    uint64_t next()
    {
        uint64_t z = (s += 0x9e3779b97f4a7c15ULL);
        z          = (z ^ (z >> 30)) * 0xbf58476d1ce4e5b9ULL;
        z          = (z ^ (z >> 27)) * 0x94d049bb133111ebULL;
        return z ^ (z >> 31);
    }

    uint64_t below(uint64_t n) { return n ? next() % n : 0; }

    bool bernoulli(double p)
    {
        if (p <= 0.0)
        {
            return false;
        }
        return static_cast<double>(next() >> 11) * (1.0 / 9007199254740992.0) < p;
    }
};

uint64_t mix64(uint64_t a, uint64_t b)
{
    uint64_t z = a ^ (b + 0x9e3779b97f4a7c15ULL + (a << 6) + (a >> 2));
    z          = (z ^ (z >> 30)) * 0xbf58476d1ce4e5b9ULL;
    z          = (z ^ (z >> 27)) * 0x94d049bb133111ebULL;
    return z ^ (z >> 31);
}

struct simstate
{
    bool         active{false};
    simrt_config cfg{};
    rng_t        rng_sched, rng_fault, rng_entropy, rng_clock;
    thr*         threads[MAXT]{};
    int          nthreads{0};
    pod_vec<kv>  mutexes;    // held mutexes: addr -> owner tid
    pod_vec<kv>  onces;      // addr -> 1 running, 2 done
    pod_vec<kv>  missed;     // condvar addr -> notifies that found no waiter
    pod_vec<decision> decisions;
    pod_vec<uint64_t> dec_idx;
    pod_vec<int>      dec_val;
    simrt_stats  stats{};
    uint64_t     seq{0};
    uint64_t     clock_ns{0};
    FILE*        log{nullptr};
    // strategy state
    int      sticky_left{0};
    uint64_t pct_points[8]{};
    int      pct_npoints{0};
    int64_t  pct_low{0};
    int      stall_victim{-1};
    int      last_op{0};
    int      unfinished{0};
    int      fault_budget{0};
};

simstate                     S;
thr                          g_thr_pool[MAXT];

thr* alloc_thr(int id)
{
    thr* t          = &g_thr_pool[id];
    t->id           = id;
    t->state        = st::runnable;
    t->obj          = nullptr;
    t->go.store(0, std::memory_order_relaxed);
    t->handle       = pthread_t{};
    t->fn           = nullptr;
    t->arg          = nullptr;
    t->ret          = nullptr;
    t->started      = false;
    t->timed_out    = false;
    t->detached     = false;
    t->created_step = 0;
    t->deadline_ns  = 0;
    t->nchoices     = 0;
    t->priority     = 0;
    return t;
}
thread_local thr*            tl_self = nullptr;
std::atomic<uint64_t>        g_heartbeat{0};
simrt_fatal_cb               g_fatal_cb = nullptr;
pod_vec<simrt_rec>           g_records;

// process-wide abstract-state set (open addressing)
constexpr size_t STATE_CAP = size_t(1) << 21;
uint64_t*        g_states  = nullptr;
size_t           g_nstates = 0;
pod_vec<uint64_t> g_new_states;

bool state_insert(uint64_t h)
{
    if (!g_states)
    {
        g_states = static_cast<uint64_t*>(raw_map(STATE_CAP * sizeof(uint64_t)));
    }
    if (h == 0)
    {
        h = 1;
    }
    if (g_nstates * 2 >= STATE_CAP)
    {
        return false; // saturated: count conservatively
    }
    size_t i = static_cast<size_t>(h) & (STATE_CAP - 1);
    while (g_states[i] != 0)
    {
        if (g_states[i] == h)
        {
            return false;
        }
        i = (i + 1) & (STATE_CAP - 1);
    }
    g_states[i] = h;
    ++g_nstates;
    g_new_states.push(h);
    return true;
}

inline bool in_sim()
{
    return S.active && tl_self != nullptr;
}

int* kv_find(pod_vec<kv>& v, const void* addr)
{
    for (size_t i = 0; i < v.size; ++i)
    {
        if (v.data[i].addr == addr)
        {
            return &v.data[i].val;
        }
    }
    return nullptr;
}

void kv_set(pod_vec<kv>& v, const void* addr, int val)
{
    if (int* p = kv_find(v, addr))
    {
        *p = val;
    }
    else
    {
        v.push(kv{addr, val});
    }
}

void kv_erase(pod_vec<kv>& v, const void* addr)
{
    for (size_t i = 0; i < v.size; ++i)
    {
        if (v.data[i].addr == addr)
        {
            v.data[i] = v.data[v.size - 1];
            --v.size;
            return;
        }
    }
}

void logf(const char* fmt, ...) __attribute__((format(printf, 1, 2)));

void logf(const char* fmt, ...)
{
    if (!S.log)
    {
        return;
    }
    va_list ap;
    va_start(ap, fmt);
    vfprintf(S.log, fmt, ap);
    va_end(ap);
}

void note_op(int o, const void* obj, const char* extra = nullptr)
{
    ++S.seq;
    ++S.stats.ops[o];
    S.last_op          = o;
    const int tid      = tl_self ? tl_self->id : -1;
    S.stats.trace_hash = mix64(S.stats.trace_hash, (static_cast<uint64_t>(o) << 32) | static_cast<uint32_t>(tid + 1));
    if (S.log)
    {
        fprintf(S.log, "%llu t%d %s %p %s\n", (unsigned long long)S.seq, tid, op_names[o], obj, extra ? extra : "");
    }
}

void park(thr* t)
{
    for (;;)
    {
        const int v = t->go.load(std::memory_order_acquire);
        if (v == 1)
        {
            t->go.store(0, std::memory_order_relaxed);
            return;
        }
        raw_futex(reinterpret_cast<int*>(&t->go), FUTEX_WAIT_PRIVATE, 0);
    }
}

void unpark(thr* t)
{
    t->go.store(1, std::memory_order_release);
    raw_futex(reinterpret_cast<int*>(&t->go), FUTEX_WAKE_PRIVATE, 1);
}

bool enabled(const thr* t)
{
    switch (t->state)
    {
    case st::runnable: return true;
    case st::blk_mutex: return kv_find(S.mutexes, t->obj) == nullptr;
    default: return false;
    }
}

bool is_timed(const thr* t)
{
    return t->state == st::blk_cond_timed || t->state == st::blk_futex_timed;
}

[[noreturn]] void fatal(int reason, const char* what)
{
    char   detail[4096];
    size_t n = 0;
    n += static_cast<size_t>(snprintf(detail + n, sizeof(detail) - n, "%s steps=%llu threads=%d:", what,
                                      (unsigned long long)S.stats.steps, S.nthreads));
    static const char* const names[] = {"run", "mutex", "cond", "condt", "futex", "futext", "join", "once", "fin"};
    for (int i = 0; i < S.nthreads && n + 32 < sizeof(detail); ++i)
    {
        const thr* t = S.threads[i];
        if (t->state == st::finished)
        {
            continue;
        }
        n += static_cast<size_t>(
            snprintf(detail + n, sizeof(detail) - n, " t%d=%s", t->id, names[static_cast<int>(t->state)]));
        if (t->state == st::blk_mutex)
        {
            const int* owner = kv_find(S.mutexes, t->obj);
            n += static_cast<size_t>(snprintf(detail + n, sizeof(detail) - n, "(owner=t%d)", owner ? *owner : -1));
        }
    }
    if (S.log)
    {
        fprintf(S.log, "FATAL %s\n", detail);
        fflush(S.log);
    }
    if (g_fatal_cb)
    {
        g_fatal_cb(reason, detail);
    }
    else
    {
        fprintf(stderr, "simrt: %s\n", detail);
    }
    fflush(nullptr);
    _exit(reason == SIMRT_END_DEADLOCK ? 3 : 4);
}

// ------------------------------------------------------------------------------------------------
// the single gateway for every decision the runtime takes
//  kind: simrt_choice, dflt: default option (policy when nothing is listed / no fault), valid(v): option check
//  PRNG mode: 'drawn' is the option drawn by the caller from the strategy; explicit mode: sparse list lookup.
int decide(int kind, int dflt, int drawn, bool (*valid)(int, const void*), const void* ctx)
{
    thr*           self = tl_self;
    const uint64_t key  = (static_cast<uint64_t>(self->id) << 40) | (self->nchoices++);
    int            val  = dflt;
    if (S.cfg.replay_explicit)
    {
        // binary search in the sorted sparse list
        size_t lo = 0, hi = S.cfg.replay_len;
        while (lo < hi)
        {
            const size_t mid = (lo + hi) / 2;
            if (S.cfg.replay_idx[mid] < key)
            {
                lo = mid + 1;
            }
            else
            {
                hi = mid;
            }
        }
        if (lo < S.cfg.replay_len && S.cfg.replay_idx[lo] == key)
        {
            const int want = S.cfg.replay_val[lo];
            if (valid(want, ctx))
            {
                val = want;
            }
            else
            {
                S.stats.diverged = 1;
            }
        }
    }
    else
    {
        val = drawn;
    }
    if (val != dflt)
    {
        ++S.stats.fired[kind];
        S.decisions.push(decision{key, kind, val});
    }
    S.stats.trace_hash = mix64(S.stats.trace_hash, (static_cast<uint64_t>(kind + 1) << 48) ^ static_cast<uint64_t>(val + 7));
    return val;
}

bool valid_sched(int tid, const void*)
{
    return tid >= 0 && tid < S.nthreads && enabled(S.threads[tid]);
}

bool valid_condwaiter(int v, const void*)
{
    if (v == 0)
    {
        return true;
    }
    const int tid = v - 1;
    return tid >= 0 && tid < S.nthreads &&
           (S.threads[tid]->state == st::blk_cond || S.threads[tid]->state == st::blk_cond_timed);
}

bool valid_bool(int v, const void*)
{
    return v == 0 || v == 1;
}

struct victim_ctx
{
    const void* obj;
    bool        futex;
};

bool waits_on(const thr* t, const void* obj, bool futex)
{
    if (t->obj != obj)
    {
        return false;
    }
    return futex ? (t->state == st::blk_futex || t->state == st::blk_futex_timed)
                 : (t->state == st::blk_cond || t->state == st::blk_cond_timed);
}

bool valid_victim(int tid, const void* ctx)
{
    const auto* c = static_cast<const victim_ctx*>(ctx);
    return tid >= 0 && tid < S.nthreads && waits_on(S.threads[tid], c->obj, c->futex);
}

bool valid_timed(int v, const void*)
{
    if (v == 0)
    {
        return true;
    }
    const int tid = v - 1;
    return tid >= 0 && tid < S.nthreads && is_timed(S.threads[tid]);
}

void abstract_state()
{
    uint64_t counts[static_cast<int>(st::count)] = {};
    for (int i = 0; i < S.nthreads; ++i)
    {
        ++counts[static_cast<int>(S.threads[i]->state)];
    }
    uint64_t h = 0x1234567ULL;
    for (auto c : counts)
    {
        h = mix64(h, c);
    }
    h = mix64(h, S.mutexes.size);
    h = mix64(h, static_cast<uint64_t>(S.last_op));
    h = mix64(h, tl_self ? static_cast<uint64_t>(tl_self->state) : 99U);
    if (state_insert(h))
    {
        ++S.stats.new_states;
    }
}

// pick the next thread to run; the caller has already recorded its own state
thr* pick()
{
    ++S.stats.steps;
    g_heartbeat.fetch_add(1, std::memory_order_relaxed);
    if (S.stats.steps > S.cfg.max_steps)
    {
        fatal(SIMRT_END_STEPCAP, "STEPCAP");
    }
    thr* self = tl_self;

    // fault: spurious wake-up of one condition-variable waiter
    {
        int nw = 0;
        for (int i = 0; i < S.nthreads; ++i)
        {
            const auto s = S.threads[i]->state;
            nw += (s == st::blk_cond || s == st::blk_cond_timed) ? 1 : 0;
        }
        if (nw > 0) // NB: decided in every mode so that the per-thread choice indices do not depend on the fault mix
        {
            int drawn = 0;
            const double pw = S.cfg.p_spurious * nw;
            if (!S.cfg.replay_explicit && S.fault_budget > 0 && S.rng_fault.bernoulli(pw > 0.25 ? 0.25 : pw))
            {
                int k = static_cast<int>(S.rng_fault.below(static_cast<uint64_t>(nw)));
                for (int i = 0; i < S.nthreads; ++i)
                {
                    const auto s = S.threads[i]->state;
                    if ((s == st::blk_cond || s == st::blk_cond_timed) && k-- == 0)
                    {
                        drawn = i + 1;
                    }
                }
            }
            const int v = decide(SIMRT_CH_SPURIOUS, 0, drawn, valid_condwaiter, nullptr);
            if (v > 0)
            {
                --S.fault_budget;
                S.threads[v - 1]->state = st::runnable;
                ++S.stats.probes[SIMRT_PR_SPURIOUS_WAKE];
                logf("%llu spurious-wake t%d\n", (unsigned long long)S.seq, v - 1);
            }
        }
    }

    int cands[MAXT];
    int n = 0, ntimed = 0;
    for (int i = 0; i < S.nthreads; ++i)
    {
        if (enabled(S.threads[i]))
        {
            cands[n++] = i;
        }
        ntimed += is_timed(S.threads[i]) ? 1 : 0;
    }

    // timed waits: fire a time-out when nothing else can run (discrete-event jump) or, rarely, by choice
    if (ntimed > 0)
    {
        int drawn = 0;
        if (!S.cfg.replay_explicit && (n == 0 || S.rng_fault.bernoulli(0.02)))
        {
            // earliest deadline when forced, random otherwise
            int      best = -1;
            uint64_t bd   = 0;
            int      k    = static_cast<int>(S.rng_fault.below(static_cast<uint64_t>(ntimed)));
            for (int i = 0; i < S.nthreads; ++i)
            {
                if (is_timed(S.threads[i]))
                {
                    if (n == 0)
                    {
                        if (best < 0 || S.threads[i]->deadline_ns < bd)
                        {
                            best = i;
                            bd   = S.threads[i]->deadline_ns;
                        }
                    }
                    else if (k-- == 0)
                    {
                        best = i;
                    }
                }
            }
            drawn = best + 1;
        }
        int v = decide(SIMRT_CH_TIMEOUT, 0, drawn, valid_timed, nullptr);
        if (v == 0 && n == 0)
        {
            // explicit replay without a listed time-out: forced jump to the earliest deadline
            for (int i = 0; i < S.nthreads; ++i)
            {
                if (is_timed(S.threads[i]) && (v == 0 || S.threads[i]->deadline_ns < S.threads[v - 1]->deadline_ns))
                {
                    v = i + 1;
                }
            }
        }
        if (v > 0)
        {
            thr* t       = S.threads[v - 1];
            t->timed_out = true;
            t->state     = st::runnable;
            if (S.clock_ns < t->deadline_ns)
            {
                S.clock_ns = t->deadline_ns;
            }
            n = 0;
            for (int i = 0; i < S.nthreads; ++i)
            {
                if (enabled(S.threads[i]))
                {
                    cands[n++] = i;
                }
            }
        }
    }

    if (n == 0)
    {
        return nullptr;
    }
    if (static_cast<uint64_t>(n) > S.stats.max_enabled)
    {
        S.stats.max_enabled = static_cast<uint64_t>(n);
    }
    if (n >= 2)
    {
        ++S.stats.multi_points;
    }

    // enabled-set fingerprint goes into the trace hash
    uint64_t eh = 0;
    for (int i = 0; i < n; ++i)
    {
        eh = mix64(eh, static_cast<uint64_t>(cands[i]));
    }
    S.stats.trace_hash = mix64(S.stats.trace_hash, eh);

    // default policy: continue the running thread if it is enabled, else the lowest enabled id
    const bool self_enabled = self != nullptr && enabled(self);
    const int  dflt         = self_enabled ? self->id : cands[0];

    int drawn = dflt;
    if (!S.cfg.replay_explicit && n >= 1)
    {
        switch (S.cfg.strategy)
        {
        case SIMRT_PCT:
        {
            for (int k = 0; k < S.pct_npoints; ++k)
            {
                if (S.pct_points[k] == S.stats.steps && self != nullptr)
                {
                    self->priority = --S.pct_low;
                }
            }
            int best = cands[0];
            for (int i = 1; i < n; ++i)
            {
                if (S.threads[cands[i]]->priority > S.threads[best]->priority)
                {
                    best = cands[i];
                }
            }
            drawn = best;
            break;
        }
        case SIMRT_STICKY:
            if (self_enabled && S.sticky_left > 0)
            {
                --S.sticky_left;
                drawn = self->id;
            }
            else
            {
                drawn         = cands[S.rng_sched.below(static_cast<uint64_t>(n))];
                S.sticky_left = 1 + static_cast<int>(S.rng_sched.below(static_cast<uint64_t>(S.cfg.sticky_max)));
            }
            break;
        case SIMRT_STALL:
        {
            const bool in_window = S.stats.steps >= static_cast<uint64_t>(S.cfg.stall_from) &&
                                   S.stats.steps < static_cast<uint64_t>(S.cfg.stall_from) + static_cast<uint64_t>(S.cfg.stall_len);
            if (in_window && n >= 2)
            {
                int m = 0;
                int alt[MAXT];
                for (int i = 0; i < n; ++i)
                {
                    if (cands[i] != S.stall_victim)
                    {
                        alt[m++] = cands[i];
                    }
                }
                drawn = alt[S.rng_sched.below(static_cast<uint64_t>(m))];
            }
            else
            {
                drawn = cands[S.rng_sched.below(static_cast<uint64_t>(n))];
            }
            break;
        }
        default: drawn = cands[S.rng_sched.below(static_cast<uint64_t>(n))]; break;
        }
    }
    const int chosen = decide(SIMRT_CH_SCHED, dflt, drawn, valid_sched, nullptr);
    abstract_state();
    return S.threads[chosen];
}

// schedule point: current thread may be preempted / must block
void reschedule()
{
    thr* self = tl_self;
    thr* next = pick();
    if (!next)
    {
        fatal(SIMRT_END_DEADLOCK, "DEADLOCK");
    }
    if (next == self)
    {
        return;
    }
    ++S.stats.switches;
    unpark(next);
    park(self);
}

void block_on(st state, const void* obj)
{
    tl_self->state = state;
    tl_self->obj   = obj;
    reschedule();
    // when we run again somebody made us runnable (or, for mutexes, the mutex is free)
}

void* trampoline(void* p)
{
    thr* t  = static_cast<thr*>(p);
    tl_self = t;
    park(t); // wait to be scheduled for the first time
    t->started = true;
    if (S.stats.steps >= t->created_step + 20)
    {
        ++S.stats.probes[SIMRT_PR_THREAD_LATE_START];
    }
    note_op(OP_START, nullptr);
    t->ret = t->fn(t->arg);
    // exit protocol
    note_op(OP_EXIT, nullptr);
    t->state = st::finished;
    for (int i = 0; i < S.nthreads; ++i)
    {
        thr* o = S.threads[i];
        if (o->state == st::blk_join && o->obj == t)
        {
            o->state = st::runnable;
        }
    }
    thr* next = pick();
    if (!next)
    {
        fatal(SIMRT_END_DEADLOCK, "DEADLOCK");
    }
    ++S.stats.switches;
    void* ret = t->ret;
    tl_self   = nullptr;
    unpark(next);
    return ret;
}

uint64_t to_ns(const struct timespec* ts)
{
    return static_cast<uint64_t>(ts->tv_sec) * 1000000000ULL + static_cast<uint64_t>(ts->tv_nsec);
}

constexpr uint64_t CLOCK_BASE_NS = 1700000000ULL * 1000000000ULL; // realtime epoch offset of the simulated clock

uint64_t tick_clock()
{
    uint64_t d = 1000; // 1 us per observation
    if (S.cfg.clock_jumps && S.rng_clock.bernoulli(0.05))
    {
        d += S.rng_clock.below(3600ULL * 1000000000ULL); // up to one hour forward
    }
    S.clock_ns += d;
    return S.clock_ns;
}

void lock_model(pthread_mutex_t* m)
{
    if (kv_find(S.mutexes, m) != nullptr)
    {
        ++S.stats.probes[SIMRT_PR_MUTEX_CONTENDED];
    }
    block_on(st::blk_mutex, m); // enabled iff free; also a pre-emption point
    tl_self->state = st::runnable;
    kv_set(S.mutexes, m, tl_self->id);
    if (__tsan_acquire)
    {
        __tsan_acquire(m);
    }
}

int cond_wait_model(pthread_cond_t* cv, pthread_mutex_t* m, bool timed, uint64_t deadline_ns)
{
    note_op(OP_CWAIT, cv, "enter");
    if (int* missed = kv_find(S.missed, cv))
    {
        if (*missed > 0)
        {
            ++S.stats.probes[SIMRT_PR_WAIT_AFTER_NOTIFY];
        }
    }
    {
        // pre-emption while still holding the mutex (the window between "predicate evaluated" and "blocked")
        thr* self = tl_self;
        thr* next = pick();
        if (!next)
        {
            fatal(SIMRT_END_DEADLOCK, "DEADLOCK");
        }
        if (next != self)
        {
            ++S.stats.probes[SIMRT_PR_PREEMPT_IN_CONDWAIT];
            ++S.stats.switches;
            unpark(next);
            park(self);
        }
    }
    if (__tsan_release)
    {
        __tsan_release(m);
    }
    note_op(OP_CWAIT, cv, "block");
    kv_erase(S.mutexes, m);
    tl_self->timed_out   = false;
    tl_self->deadline_ns = deadline_ns;
    block_on(timed ? st::blk_cond_timed : st::blk_cond, cv);
    const bool timed_out = tl_self->timed_out;
    tl_self->timed_out   = false;
    note_op(OP_CWAIT, cv, timed_out ? "timeout" : "woken");
    // re-acquire the mutex
    block_on(st::blk_mutex, m);
    tl_self->state = st::runnable;
    kv_set(S.mutexes, m, tl_self->id);
    if (__tsan_acquire)
    {
        __tsan_acquire(m);
    }
    return timed_out ? ETIMEDOUT : 0;
}

long wake_waiters(const void* obj, bool futex, long maxn)
{
    // count the waiters
    int waiters[MAXT];
    int n = 0;
    for (int i = 0; i < S.nthreads; ++i)
    {
        if (waits_on(S.threads[i], obj, futex))
        {
            waiters[n++] = i;
        }
    }
    if (n == 0)
    {
        if (!futex)
        {
            ++S.stats.probes[SIMRT_PR_NOTIFY_NO_WAITER];
            int* missed = kv_find(S.missed, obj);
            if (missed)
            {
                ++*missed;
            }
            else
            {
                kv_set(S.missed, obj, 1);
            }
        }
        return 0;
    }
    long woken = 0;
    while (woken < maxn && n > 0)
    {
        int k = 0;
        if (maxn < n)
        {
            // arbitrary victim (POSIX allows any waiter)
            int drawn = waiters[0];
            if (!S.cfg.replay_explicit && S.cfg.random_victim)
            {
                drawn = waiters[S.rng_fault.below(static_cast<uint64_t>(n))];
            }
            const victim_ctx ctx{obj, futex};
            const int        v = decide(SIMRT_CH_VICTIM, waiters[0], drawn, valid_victim, &ctx);
            for (int i = 0; i < n; ++i)
            {
                if (waiters[i] == v)
                {
                    k = i;
                }
            }
        }
        S.threads[waiters[k]]->state = st::runnable;
        for (int i = k; i + 1 < n; ++i)
        {
            waiters[i] = waiters[i + 1];
        }
        --n;
        ++woken;
    }
    return woken;
}
} // namespace

// ------------------------------------------------------------------------------------------------
// public control API

extern "C"
{
void simrt_default_config(simrt_config* cfg, uint64_t seed)
{
    memset(cfg, 0, sizeof(*cfg));
    cfg->seed          = seed;
    cfg->cores         = 4;
    cfg->strategy      = SIMRT_UNIFORM;
    cfg->pct_depth     = 2;
    cfg->pct_length    = 1000;
    cfg->sticky_max    = 16;
    cfg->stall_victim  = -1;
    cfg->stall_from    = 0;
    cfg->stall_len     = 0;
    cfg->p_spurious    = 0.0;
    cfg->p_eagain      = 0.0;
    cfg->max_spurious  = 50;
    cfg->random_victim = 1;
    cfg->clock_jumps   = 0;
    cfg->max_steps     = 2000000;
}

void simrt_begin(const simrt_config* cfg)
{
    if (S.active)
    {
        fprintf(stderr, "simrt_begin: a run is already active\n");
        abort();
    }
    S.cfg = *cfg;
    S.rng_sched.s   = mix64(cfg->seed, 0x5C4ED);
    S.rng_fault.s   = mix64(cfg->seed, 0xFA017);
    S.rng_entropy.s = mix64(cfg->seed, 0xE27209);
    S.rng_clock.s   = mix64(cfg->seed, 0xC10C4);
    S.nthreads      = 0;
    S.mutexes.clear();
    S.onces.clear();
    S.missed.clear();
    S.decisions.clear();
    memset(&S.stats, 0, sizeof(S.stats));
    S.stats.trace_hash = 1469598103934665603ULL;
    S.seq              = 0;
    S.clock_ns         = CLOCK_BASE_NS;
    S.sticky_left      = 0;
    S.last_op          = 0;
    S.unfinished       = 0;
    S.fault_budget     = cfg->max_spurious;
    S.log              = cfg->log_path ? fopen(cfg->log_path, "w") : nullptr;
    g_records.clear();

    // PCT change points
    S.pct_npoints = 0;
    S.pct_low     = 0;
    if (cfg->strategy == SIMRT_PCT)
    {
        const int d   = cfg->pct_depth < 1 ? 1 : (cfg->pct_depth > 8 ? 8 : cfg->pct_depth);
        S.pct_npoints = d;
        for (int k = 0; k < d; ++k)
        {
            S.pct_points[k] = 1 + S.rng_sched.below(static_cast<uint64_t>(cfg->pct_length > 1 ? cfg->pct_length : 1));
        }
    }
    S.stall_victim = cfg->stall_victim >= 0 ? cfg->stall_victim : 1 + static_cast<int>(S.rng_sched.below(8));

    auto* t     = alloc_thr(0);
    t->started  = true;
    t->priority = static_cast<int64_t>(1000 + S.rng_sched.below(1000000));
    S.threads[S.nthreads++] = t;
    tl_self  = t;
    S.active = true;
}

simrt_stats simrt_end(void)
{
    S.unfinished = 0;
    for (int i = 0; i < S.nthreads; ++i)
    {
        thr* t = S.threads[i];
        if (t != tl_self && t->state != st::finished)
        {
            ++S.unfinished;
        }
    }
    S.active = false;
    S.stats.threads      = static_cast<uint64_t>(S.nthreads);
    S.stats.sim_clock_ns = S.clock_ns - CLOCK_BASE_NS;
    simrt_stats r        = S.stats;
    if (S.unfinished > 0)
    {
        fprintf(stderr, "simrt_end: %d simulated thread(s) still alive\n", S.unfinished);
        r.diverged |= 2;
    }
    if (S.log)
    {
        fclose(S.log);
        S.log = nullptr;
    }
    // export the decisions
    S.dec_idx.clear();
    S.dec_val.clear();
    for (size_t i = 0; i < S.decisions.size; ++i)
    {
        S.dec_idx.push(S.decisions.data[i].key);
        S.dec_val.push(S.decisions.data[i].val);
    }
    for (int i = 0; i < S.nthreads; ++i)
    {
        S.threads[i] = nullptr;
    }
    S.nthreads = 0;
    tl_self    = nullptr;
    return r;
}

int simrt_active(void)
{
    return in_sim() ? 1 : 0;
}

void simrt_set_cores(int cores)
{
    S.cfg.cores = cores > 0 ? cores : 1;
}

void simrt_yield(const char* what)
{
    if (in_sim())
    {
        note_op(OP_YIELD, nullptr, what);
        reschedule();
    }
}

uint64_t simrt_seq(void)
{
    return S.seq;
}

uint64_t simrt_steps(void)
{
    return S.stats.steps;
}

int simrt_self(void)
{
    return tl_self ? tl_self->id : -1;
}

void simrt_record(int kind, int64_t a, int64_t b, int64_t c, int64_t d)
{
    ++S.seq;
    g_records.push(simrt_rec{S.seq, tl_self ? tl_self->id : -1, kind, a, b, c, d});
}

const simrt_rec* simrt_records(size_t* count)
{
    *count = g_records.size;
    return g_records.data;
}

void simrt_records_clear(void)
{
    g_records.clear();
}

void simrt_on_fatal(simrt_fatal_cb cb)
{
    g_fatal_cb = cb;
}

size_t simrt_decisions(const uint64_t** idx, const int** val)
{
    if (S.active)
    {
        // run still active (fatal path): export what we have so far
        S.dec_idx.clear();
        S.dec_val.clear();
        for (size_t i = 0; i < S.decisions.size; ++i)
        {
            S.dec_idx.push(S.decisions.data[i].key);
            S.dec_val.push(S.decisions.data[i].val);
        }
    }
    *idx = S.dec_idx.data;
    *val = S.dec_val.data;
    return S.dec_idx.size;
}

size_t simrt_drain_states(uint64_t* out, size_t cap)
{
    size_t n = g_new_states.size < cap ? g_new_states.size : cap;
    for (size_t i = 0; i < n; ++i)
    {
        out[i] = g_new_states.data[g_new_states.size - n + i];
    }
    g_new_states.size -= n;
    return n;
}

static std::atomic<int> g_tsan_reports{0};

__attribute__((used, visibility("default"))) void __tsan_on_report(void*)
{
    g_tsan_reports.fetch_add(1, std::memory_order_relaxed);
}

int simrt_tsan_reports(void)
{
    return g_tsan_reports.load(std::memory_order_relaxed);
}

static int g_watchdog_seconds = 0;

static void* watchdog_main(void*)
{
    uint64_t last  = g_heartbeat.load(std::memory_order_relaxed);
    int      still = 0;
    for (;;)
    {
        struct timespec ts = {0, 250000000L};
        RF().r_nanosleep(&ts, nullptr);
        const uint64_t now = g_heartbeat.load(std::memory_order_relaxed);
        if (!S.active || now != last)
        {
            last  = now;
            still = 0;
            continue;
        }
        if (++still >= g_watchdog_seconds * 4)
        {
            if (g_fatal_cb)
            {
                g_fatal_cb(SIMRT_END_STALL, "STALL: no scheduler progress (un-intercepted blocking call or spin loop)");
            }
            fflush(nullptr);
            _exit(7);
        }
    }
    return nullptr;
}

void simrt_watchdog_start(int seconds)
{
    if (g_watchdog_seconds > 0 || seconds <= 0)
    {
        return;
    }
    g_watchdog_seconds = seconds;
    pthread_t t;
    RF().r_pthread_create(&t, nullptr, watchdog_main, nullptr);
    RF().r_pthread_detach(t);
}

uint64_t simrt_heartbeat(void)
{
    return g_heartbeat.load(std::memory_order_relaxed);
}

// ------------------------------------------------------------------------------------------------
// interposed ABI

int pthread_create(pthread_t* handle, const pthread_attr_t* attr, void* (*fn)(void*), void* arg)
{
    const auto rf = RF().r_pthread_create;
    if (!in_sim())
    {
        return rf(handle, attr, fn, arg);
    }
    if (S.nthreads >= MAXT)
    {
        return EAGAIN;
    }
    auto* t         = alloc_thr(S.nthreads);
    t->fn           = fn;
    t->arg          = arg;
    t->created_step = S.stats.steps;
    t->priority     = static_cast<int64_t>(1000 + S.rng_sched.below(1000000));
    if (attr != nullptr)
    {
        int ds = 0;
        if (pthread_attr_getdetachstate(attr, &ds) == 0 && ds == PTHREAD_CREATE_DETACHED)
        {
            t->detached = true;
        }
    }
    S.threads[S.nthreads++] = t;
    const int rc            = rf(&t->handle, attr, trampoline, t);
    if (rc != 0)
    {
        --S.nthreads;
        return rc;
    }
    *handle = t->handle;
    note_op(OP_CREATE, t);
    reschedule();
    return 0;
}

int pthread_join(pthread_t handle, void** ret)
{
    const auto rf = RF().r_pthread_join;
    if (!in_sim())
    {
        return rf(handle, ret);
    }
    thr* target = nullptr;
    for (int i = 0; i < S.nthreads; ++i)
    {
        thr* t = S.threads[i];
        if (t->fn && pthread_equal(t->handle, handle))
        {
            target = t;
        }
    }
    if (!target)
    {
        return rf(handle, ret);
    }
    note_op(OP_JOIN, target, "enter");
    if (target->state != st::finished)
    {
        ++S.stats.probes[SIMRT_PR_JOIN_BLOCKED];
        block_on(st::blk_join, target);
        tl_self->state = st::runnable;
    }
    else
    {
        reschedule();
    }
    note_op(OP_JOIN, target, "done");
    // the handle may be reused by a later thread: forget it
    target->fn = nullptr;
    return rf(handle, ret);
}

int pthread_detach(pthread_t handle)
{
    const auto rf = RF().r_pthread_detach;
    if (in_sim())
    {
        for (int i = 0; i < S.nthreads; ++i)
        {
            thr* t = S.threads[i];
            if (t->fn && pthread_equal(t->handle, handle))
            {
                t->detached = true;
            }
        }
    }
    return rf(handle);
}

int pthread_mutex_lock(pthread_mutex_t* m)
{
    const auto rf = RF().r_pthread_mutex_lock;
    if (!in_sim())
    {
        return rf(m);
    }
    note_op(OP_LOCK, m);
    lock_model(m);
    return 0;
}

int pthread_mutex_trylock(pthread_mutex_t* m)
{
    const auto rf = RF().r_pthread_mutex_trylock;
    if (!in_sim())
    {
        return rf(m);
    }
    note_op(OP_TRYLOCK, m);
    reschedule();
    if (kv_find(S.mutexes, m) != nullptr)
    {
        return EBUSY;
    }
    kv_set(S.mutexes, m, tl_self->id);
    if (__tsan_acquire)
    {
        __tsan_acquire(m);
    }
    return 0;
}

int pthread_mutex_unlock(pthread_mutex_t* m)
{
    const auto rf = RF().r_pthread_mutex_unlock;
    if (!in_sim())
    {
        return rf(m);
    }
    if (__tsan_release)
    {
        __tsan_release(m);
    }
    note_op(OP_UNLOCK, m);
    kv_erase(S.mutexes, m);
    reschedule();
    return 0;
}

int pthread_cond_wait(pthread_cond_t* cv, pthread_mutex_t* m)
{
    const auto rf = RF().r_pthread_cond_wait;
    if (!in_sim())
    {
        return rf(cv, m);
    }
    return cond_wait_model(cv, m, false, 0);
}

int pthread_cond_timedwait(pthread_cond_t* cv, pthread_mutex_t* m, const struct timespec* abstime)
{
    const auto rf = RF().r_pthread_cond_timedwait;
    if (!in_sim())
    {
        return rf(cv, m, abstime);
    }
    return cond_wait_model(cv, m, true, to_ns(abstime));
}

int pthread_cond_clockwait(pthread_cond_t* cv, pthread_mutex_t* m, clockid_t clk, const struct timespec* abstime)
{
    const auto rf = RF().r_pthread_cond_clockwait;
    if (!in_sim())
    {
        return rf(cv, m, clk, abstime);
    }
    return cond_wait_model(cv, m, true, to_ns(abstime));
}

int pthread_cond_signal(pthread_cond_t* cv)
{
    const auto rf = RF().r_pthread_cond_signal;
    if (!in_sim())
    {
        return rf(cv);
    }
    note_op(OP_SIGNAL, cv);
    wake_waiters(cv, false, 1);
    reschedule();
    return 0;
}

int pthread_cond_broadcast(pthread_cond_t* cv)
{
    const auto rf = RF().r_pthread_cond_broadcast;
    if (!in_sim())
    {
        return rf(cv);
    }
    note_op(OP_BROADCAST, cv);
    wake_waiters(cv, false, LONG_MAX);
    reschedule();
    return 0;
}

int pthread_once(pthread_once_t* once, void (*fn)(void))
{
    const auto rf = RF().r_pthread_once;
    if (!in_sim())
    {
        return rf(once, fn);
    }
    // fast path of the real implementations (one acquire load): a completed flag is neither a schedule point nor an
    // event, so that a run does not depend on what earlier runs of the same process already initialised.
    // glibc: done == bit 1 set; TSan's interceptor reinterprets the word: done == 1.
    {
        const int word = __atomic_load_n(reinterpret_cast<const int*>(once), __ATOMIC_ACQUIRE);
        const bool done = __tsan_acquire ? (word == 1) : ((word & 2) != 0);
        if (done)
        {
            return rf(once, fn);
        }
    }
    note_op(OP_ONCE, once);
    reschedule();
    for (;;)
    {
        int* state = kv_find(S.onces, once);
        if (state == nullptr)
        {
            kv_set(S.onces, once, 1);
            int rc = 0;
            try
            {
                // the real flag stays the source of truth for "done" (flags completed outside the simulation are
                // honoured); uncontended, so the real implementation never blocks
                rc = rf(once, fn);
            }
            catch (...)
            {
                kv_erase(S.onces, once);
                for (int i = 0; i < S.nthreads; ++i)
                {
                    thr* t = S.threads[i];
                    if (t->state == st::blk_once && t->obj == once)
                    {
                        t->state = st::runnable;
                    }
                }
                throw;
            }
            kv_set(S.onces, once, 2);
            for (int i = 0; i < S.nthreads; ++i)
            {
                thr* t = S.threads[i];
                if (t->state == st::blk_once && t->obj == once)
                {
                    t->state = st::runnable;
                }
            }
            return rc;
        }
        if (*state == 2)
        {
            return rf(once, fn);
        }
        ++S.stats.probes[SIMRT_PR_ONCE_CONTENDED];
        block_on(st::blk_once, once);
        tl_self->state = st::runnable;
    }
}

long syscall(long number, ...)
{
    const auto rf = RF().r_syscall;
    va_list     ap;
    va_start(ap, number);
    const long a1 = va_arg(ap, long), a2 = va_arg(ap, long), a3 = va_arg(ap, long), a4 = va_arg(ap, long),
               a5 = va_arg(ap, long), a6 = va_arg(ap, long);
    va_end(ap);
    if (number != SYS_futex || !in_sim())
    {
        return rf(number, a1, a2, a3, a4, a5, a6);
    }
    int*      addr = reinterpret_cast<int*>(a1);
    const int opc  = static_cast<int>(a2) & ~(FUTEX_PRIVATE_FLAG | FUTEX_CLOCK_REALTIME);
    const int val  = static_cast<int>(a3);
    if (opc == FUTEX_WAIT || opc == FUTEX_WAIT_BITSET)
    {
        note_op(OP_FWAIT, addr);
        reschedule(); // pre-emption between the caller's check of the word and the wait
        if (__atomic_load_n(addr, __ATOMIC_SEQ_CST) != val)
        {
            errno = EAGAIN;
            return -1;
        }
        // fault: spurious return (allowed: callers must re-check the word)
        {
            const int drawn = (!S.cfg.replay_explicit && S.fault_budget > 0 && S.rng_fault.bernoulli(S.cfg.p_eagain)) ? 1 : 0;
            if (decide(SIMRT_CH_EAGAIN, 0, drawn, valid_bool, nullptr) == 1)
            {
                --S.fault_budget;
                errno = EAGAIN;
                return -1;
            }
        }
        const auto* ts    = reinterpret_cast<const struct timespec*>(a4);
        const bool  timed = ts != nullptr;
        if (timed)
        {
            // FUTEX_WAIT: relative; FUTEX_WAIT_BITSET: absolute
            tl_self->deadline_ns = opc == FUTEX_WAIT ? S.clock_ns + to_ns(ts) : to_ns(ts);
        }
        ++S.stats.probes[SIMRT_PR_FUTEX_BLOCKED];
        tl_self->timed_out = false;
        block_on(timed ? st::blk_futex_timed : st::blk_futex, addr);
        tl_self->state = st::runnable;
        if (tl_self->timed_out)
        {
            tl_self->timed_out = false;
            errno              = ETIMEDOUT;
            return -1;
        }
        return 0;
    }
    if (opc == FUTEX_WAKE || opc == FUTEX_WAKE_BITSET)
    {
        note_op(OP_FWAKE, addr);
        const long woken = wake_waiters(addr, true, val);
        reschedule();
        return woken;
    }
    fprintf(stderr, "simrt: unsupported futex op %d\n", opc);
    abort();
}

int simrt_nprocs_override = 0;

int get_nprocs(void)
{
    const auto rf = RF().r_get_nprocs;
    if (in_sim())
    {
        return S.cfg.cores > 0 ? S.cfg.cores : 1;
    }
    return simrt_nprocs_override > 0 ? simrt_nprocs_override : rf();
}

int clock_gettime(clockid_t clk, struct timespec* ts)
{
    const auto rf = RF().r_clock_gettime;
    if (!in_sim())
    {
        return rf(clk, ts);
    }
    ++S.stats.ops[OP_CLOCK];
    uint64_t now = tick_clock();
    if (clk == CLOCK_MONOTONIC || clk == CLOCK_MONOTONIC_RAW || clk == CLOCK_MONOTONIC_COARSE || clk == CLOCK_BOOTTIME)
    {
        now -= CLOCK_BASE_NS - 1000000000ULL;
    }
    ts->tv_sec  = static_cast<time_t>(now / 1000000000ULL);
    ts->tv_nsec = static_cast<long>(now % 1000000000ULL);
    return 0;
}

time_t time(time_t* p)
{
    const auto rf = RF().r_time;
    if (!in_sim())
    {
        return rf(p);
    }
    ++S.stats.ops[OP_CLOCK];
    const auto t = static_cast<time_t>(tick_clock() / 1000000000ULL);
    if (p)
    {
        *p = t;
    }
    return t;
}

int gettimeofday(struct timeval* tv, void* tz)
{
    const auto rf = RF().r_gettimeofday;
    if (!in_sim())
    {
        return rf(tv, tz);
    }
    ++S.stats.ops[OP_CLOCK];
    const uint64_t now = tick_clock();
    if (tv)
    {
        tv->tv_sec  = static_cast<time_t>(now / 1000000000ULL);
        tv->tv_usec = static_cast<suseconds_t>((now % 1000000000ULL) / 1000ULL);
    }
    return 0;
}

int sched_yield(void)
{
    const auto rf = RF().r_sched_yield;
    if (!in_sim())
    {
        return rf();
    }
    note_op(OP_YIELD, nullptr, "sched_yield");
    S.clock_ns += 1000;
    reschedule();
    return 0;
}

int nanosleep(const struct timespec* req, struct timespec* rem)
{
    const auto rf = RF().r_nanosleep;
    if (!in_sim())
    {
        return rf(req, rem);
    }
    note_op(OP_SLEEP, nullptr);
    S.clock_ns += to_ns(req);
    reschedule();
    if (rem)
    {
        rem->tv_sec  = 0;
        rem->tv_nsec = 0;
    }
    return 0;
}

int clock_nanosleep(clockid_t clk, int flags, const struct timespec* req, struct timespec* rem)
{
    const auto rf = RF().r_clock_nanosleep;
    if (!in_sim())
    {
        return rf(clk, flags, req, rem);
    }
    note_op(OP_SLEEP, nullptr);
    if (flags & TIMER_ABSTIME)
    {
        uint64_t target = to_ns(req);
        if (clk == CLOCK_MONOTONIC)
        {
            target += CLOCK_BASE_NS - 1000000000ULL;
        }
        if (target > S.clock_ns)
        {
            S.clock_ns = target;
        }
    }
    else
    {
        S.clock_ns += to_ns(req);
    }
    reschedule();
    if (rem)
    {
        rem->tv_sec  = 0;
        rem->tv_nsec = 0;
    }
    return 0;
}

int usleep(useconds_t us)
{
    const auto rf = RF().r_usleep;
    if (!in_sim())
    {
        return rf(us);
    }
    note_op(OP_SLEEP, nullptr);
    S.clock_ns += static_cast<uint64_t>(us) * 1000ULL;
    reschedule();
    return 0;
}

unsigned sleep(unsigned s)
{
    const auto rf = RF().r_sleep;
    if (!in_sim())
    {
        return rf(s);
    }
    note_op(OP_SLEEP, nullptr);
    S.clock_ns += static_cast<uint64_t>(s) * 1000000000ULL;
    reschedule();
    return 0;
}
} // extern "C"

// entropy seam: std::random_device::operator() -> _M_getval() (out of line in libstdc++.so)
unsigned int std::random_device::_M_getval()
{
    const auto rf = RF().r_rd_getval;
    if (!in_sim())
    {
        return rf(this);
    }
    return static_cast<unsigned int>(S.rng_entropy.next());
}
