// Simulated storage for byte streams: the seam is std::streambuf (every libnano reader/writer takes std::istream& /
// std::ostream&). The writer side logs every write call and can run out of space or "crash" (torn write: the durable
// image is a prefix of what was accepted); the reader side hands out PRNG-sized chunks, truncates with EOF or an I/O
// error at a chosen offset and applies byte flips to the view.
#pragma once

#include <cstdint>
#include <ios>
#include <stdexcept>
#include <streambuf>
#include <string>
#include <vector>

namespace simfs
{
struct io_error : std::runtime_error
{
    io_error()
        : std::runtime_error("simfs: simulated I/O error")
    {
    }
};

struct write_call
{
    size_t offset;
    size_t length;
};

// unbuffered sink
class sink_buf final : public std::streambuf
{
public:
    // capacity: bytes accepted before writes fail (disk full); SIZE_MAX: unlimited
    explicit sink_buf(size_t capacity = SIZE_MAX)
        : m_capacity(capacity)
    {
    }

    const std::string&             bytes() const { return m_bytes; }
    const std::vector<write_call>& calls() const { return m_calls; }
    bool                           overflowed() const { return m_overflowed; }

protected:
    std::streamsize xsputn(const char* s, std::streamsize n) override
    {
        const auto want = static_cast<size_t>(n);
        const auto room = m_capacity > m_bytes.size() ? m_capacity - m_bytes.size() : 0U;
        const auto take = want < room ? want : room;
        m_calls.push_back(write_call{m_bytes.size(), take});
        m_bytes.append(s, take);
        if (take < want)
        {
            m_overflowed = true;
        }
        return static_cast<std::streamsize>(take);
    }

    int_type overflow(int_type ch) override
    {
        if (traits_type::eq_int_type(ch, traits_type::eof()))
        {
            return traits_type::not_eof(ch);
        }
        const char c = traits_type::to_char_type(ch);
        return xsputn(&c, 1) == 1 ? ch : traits_type::eof();
    }

private:
    std::string             m_bytes;
    std::vector<write_call> m_calls;
    size_t                  m_capacity;
    bool                    m_overflowed{false};
};

struct flip
{
    size_t  offset;
    uint8_t mask;
};

// source with chunked delivery, truncation (EOF or error) and byte flips
class source_buf final : public std::streambuf
{
public:
    // limit: number of bytes available before the fault; error: true -> throw (istream sets badbit), false -> clean EOF
    source_buf(const std::string& image, size_t limit, bool error, uint64_t chunk_seed, std::vector<flip> flips = {})
        : m_image(image)
        , m_limit(limit < image.size() ? limit : image.size())
        , m_error(error)
        , m_rng(chunk_seed * 0x9e3779b97f4a7c15ULL + 1)
        , m_flips(std::move(flips))
    {
    }

    size_t consumed() const { return m_pos - static_cast<size_t>(egptr() - gptr()); }
    size_t delivered() const { return m_pos; }
    bool   hit_fault() const { return m_hit_fault; }

protected:
    int_type underflow() override
    {
        if (gptr() < egptr())
        {
            return traits_type::to_int_type(*gptr());
        }
        if (m_pos >= m_limit)
        {
            m_hit_fault = true;
            if (m_error && m_limit < m_image.size())
            {
                throw io_error();
            }
            return traits_type::eof();
        }
        // chunk of 1..64 bytes: no reader may depend on buffer boundaries
        m_rng ^= m_rng << 13;
        m_rng ^= m_rng >> 7;
        m_rng ^= m_rng << 17;
        size_t n = 1 + static_cast<size_t>(m_rng % 64);
        if (n > m_limit - m_pos)
        {
            n = m_limit - m_pos;
        }
        m_chunk.assign(m_image.data() + m_pos, n);
        for (const auto& f : m_flips)
        {
            if (f.offset >= m_pos && f.offset < m_pos + n)
            {
                m_chunk[f.offset - m_pos] = static_cast<char>(static_cast<uint8_t>(m_chunk[f.offset - m_pos]) ^ f.mask);
            }
        }
        m_pos += n;
        setg(m_chunk.data(), m_chunk.data(), m_chunk.data() + n);
        return traits_type::to_int_type(*gptr());
    }

private:
    const std::string& m_image;
    size_t             m_limit;
    bool               m_error;
    uint64_t           m_rng;
    std::vector<flip>  m_flips;
    std::string        m_chunk;
    size_t             m_pos{0};
    bool               m_hit_fault{false};
};
} // namespace simfs
