// Deterministic simulator runtime for libnano: public control API used by the harnesses.
// The implementation (simrt.cpp) is compiled WITHOUT sanitizer instrumentation and interposes the
// pthread / futex / libc ABI at link time. See /verif/DESIGN.md section 2.
#pragma once

#include <cstddef>
#include <cstdint>

extern "C"
{
// ---- scheduling strategies -------------------------------------------------------------------
enum simrt_strategy : int
{
    SIMRT_UNIFORM = 0, // uniform random among enabled threads
    SIMRT_PCT     = 1, // random priorities with d priority-change points
    SIMRT_STICKY  = 2, // run the current thread for a random quantum
    SIMRT_STALL   = 3, // uniform, but a victim thread is not scheduled during a window unless alone
    SIMRT_STRATEGIES
};

// ---- choice kinds (everything the PRNG decides inside the runtime) -----------------------------
enum simrt_choice : int
{
    SIMRT_CH_SCHED    = 0, // which enabled thread runs next
    SIMRT_CH_SPURIOUS = 1, // spurious condition-variable wake-up (fault)
    SIMRT_CH_VICTIM   = 2, // which waiter a notify_one / futex-wake(1) releases
    SIMRT_CH_EAGAIN   = 3, // spurious futex-wait return (fault)
    SIMRT_CH_TIMEOUT  = 4, // a timed wait expires
    SIMRT_CH_KINDS
};

struct simrt_config
{
    uint64_t seed;          // the one integer
    int      cores;         // simulated core count (get_nprocs / hardware_concurrency)
    int      strategy;      // simrt_strategy
    int      pct_depth;     // number of priority-change points for PCT (1..3)
    int      pct_length;    // estimated run length for PCT change points
    int      sticky_max;    // maximum quantum for STICKY
    int      stall_victim;  // thread id of the victim for STALL (-1: chosen by PRNG among first 8)
    int      stall_from;    // window [from, from+len) in steps
    int      stall_len;
    double   p_spurious;    // per blocked-cond-waiter per step probability of a spurious wake-up
    double   p_eagain;      // probability that a futex wait returns EAGAIN spuriously
    int      max_spurious;  // budget of injected spurious wake-ups + futex returns per run (faults stop afterwards)
    int      random_victim; // notify_one wakes an arbitrary waiter (1) or the first one (0)
    int      clock_jumps;   // simulated clock jumps forward randomly (1) or ticks evenly (0)
    uint64_t max_steps;     // step cap
    const char* log_path;   // optional event log (nullptr: none)
    // explicit replay: sparse list of deviations from the default policy (nullptr: PRNG decides)
    const uint64_t* replay_idx; // choice-point indices, ascending
    const int*      replay_val; // chosen option per index
    size_t          replay_len;
    int             replay_explicit; // 1: follow the sparse list (defaults elsewhere); 0: PRNG mode
};

struct simrt_stats
{
    uint64_t trace_hash;   // hash over (thread, operation kind, enabled set, choice); no addresses
    uint64_t steps;        // scheduling steps ("simulated time")
    uint64_t switches;     // context switches
    uint64_t threads;      // threads that existed in the run (incl. the main one)
    uint64_t max_enabled;  // largest enabled set seen at a schedule point
    uint64_t multi_points; // schedule points with >= 2 enabled threads
    uint64_t fired[SIMRT_CH_KINDS]; // non-default decisions taken per choice kind
    uint64_t ops[16];      // counts per intercepted operation class
    uint64_t probes[16];   // runtime-level rare-condition probes (see simrt_probe names)
    uint64_t sim_clock_ns; // simulated clock at the end
    uint64_t new_states;   // abstract states first seen in this run (process-wide set)
    int      diverged;     // replay: a listed option was not available
};

enum simrt_probe : int
{
    SIMRT_PR_NOTIFY_NO_WAITER = 0, // notify issued with no waiter (notify-before-wait)
    SIMRT_PR_WAIT_AFTER_NOTIFY,    // cond wait entered after >=1 notify on that condvar had no waiter
    SIMRT_PR_MUTEX_CONTENDED,      // lock requested while the mutex is held
    SIMRT_PR_FUTEX_BLOCKED,        // a thread really blocked on a futex (future not ready)
    SIMRT_PR_THREAD_LATE_START,    // thread first scheduled >= 20 steps after creation
    SIMRT_PR_ONCE_CONTENDED,       // call_once entered while another thread runs the routine
    SIMRT_PR_PREEMPT_IN_CONDWAIT,  // pre-empted at cond-wait entry while holding the mutex
    SIMRT_PR_JOIN_BLOCKED,         // join had to wait
    SIMRT_PR_SPURIOUS_WAKE,        // a spurious wake-up fired
    SIMRT_PR_COUNT
};

enum simrt_end_reason : int
{
    SIMRT_END_OK = 0,
    SIMRT_END_DEADLOCK,
    SIMRT_END_STEPCAP,
    SIMRT_END_STALL,
};

void        simrt_default_config(simrt_config* cfg, uint64_t seed);
void        simrt_begin(const simrt_config* cfg);
simrt_stats simrt_end(void);
int         simrt_active(void);
// change the simulated core count inside a run (pools created afterwards see the new value)
void        simrt_set_cores(int cores);

// schedule point owned by the harness (user call-backs); 'what' must be a string literal
void     simrt_yield(const char* what);
// global event sequence number and current simulated thread id (-1 outside the simulation)
uint64_t simrt_seq(void);
int      simrt_self(void);
uint64_t simrt_steps(void);

// lock-free event recorder for harness oracles (lives in the uninstrumented object so that TSan does not
// see the harness' own bookkeeping; safe because exactly one simulated thread runs at a time)
struct simrt_rec
{
    uint64_t seq;
    int32_t  tid;
    int32_t  kind;
    int64_t  a, b, c, d;
};
void             simrt_record(int kind, int64_t a, int64_t b, int64_t c, int64_t d);
const simrt_rec* simrt_records(size_t* count);
void             simrt_records_clear(void);

// fatal end of a run (deadlock / step cap): the callback is invoked by the detecting thread with all other
// threads parked; it must print what it needs and not return to simulated code (the runtime _exits afterwards).
typedef void (*simrt_fatal_cb)(int reason, const char* detail);
void simrt_on_fatal(simrt_fatal_cb cb);

// decisions taken in the last/current run that differ from the default policy (for replay files)
size_t simrt_decisions(const uint64_t** idx, const int** val);

// abstract-state fingerprints first seen since the last drain (process-wide)
size_t simrt_drain_states(uint64_t* out, size_t cap);

// stall watchdog: a real (non-simulated) thread that calls cb(SIMRT_END_STALL, ...) and _exits(7) when a run is active and
// the scheduler made no progress for 'seconds' of wall-clock time (un-intercepted blocking or a spin loop). Must be started
// outside a run.
void simrt_watchdog_start(int seconds);

// number of ThreadSanitizer reports so far in this process (the runtime's weak hook __tsan_on_report lives in the
// uninstrumented object: an instrumented hook would race on its own counter and deadlock inside the report path)
int simrt_tsan_reports(void);

// watchdog heartbeat (monotone; changes whenever the scheduler makes progress)
uint64_t simrt_heartbeat(void);
}
