// C17 - thread pool: every task exactly once, completion, clean shutdown - under simulated schedules and faults.
// System under simulation: the shipped nano::parallel::pool_t / queue_t / worker_t / section_t.
#include "common.h"

#include <nano/core/parallel.h>

#include <future>
#include <memory>
#include <stdexcept>
#include <thread>

using namespace nano;

namespace
{
enum kind : int
{
    K_CALL = 1,   // a=call id, b=variant(0 elem,1 chunk,2 enqueue), c=elements, d=chunk
    K_RET,        // a=call id, b=0 normal / 1 exception / 2 foreign exception
    K_ENTER,      // a=call id, b=begin, c=end, d=tnum
    K_LEAVE,      // a=call id, b=begin, c=end, d=tnum
    K_DTOR_BEGIN, //
    K_DTOR_END,   //
};

struct call_t
{
    int     id{0};
    int     variant{0}; // 0: map(elements, op), 1: map(elements, chunk, op), 2: enqueue
    int64_t elements{0};
    int64_t chunk{1};
    bool    raise{true};
    int64_t throw_at{-1}; // index (variant 0), chunk containing this index (variant 1), task itself (variant 2: 0/-1)
    int     yields{0};
    int     wait_mode{0}; // enqueue: 0 get, 1 wait, 2 abandon (keep the future, never wait before destruction)
    bool    pooled{false}; // took the queued path (decided from the public contract: size() > 1 and > 1 task)
};

struct op_error : std::runtime_error
{
    int call;

    op_error(int c, int64_t i)
        : std::runtime_error("op-error call=" + std::to_string(c) + " index=" + std::to_string(i))
        , call(c)
    {
    }
};

struct shared_t
{
    vf::ctx_t*                              ctx{nullptr};
    std::vector<call_t>                     calls; // filled before the threads start
    std::vector<std::vector<int>>           per_submitter;
    std::vector<parallel::future_t>         futures; // per call (variant 2)
};

void run_operator(const call_t& call, int64_t begin, int64_t end, size_t tnum)
{
    simrt_record(K_ENTER, call.id, begin, end, static_cast<int64_t>(tnum));
    for (int y = 0; y < call.yields; ++y)
    {
        simrt_yield("in-op");
    }
    simrt_record(K_LEAVE, call.id, begin, end, static_cast<int64_t>(tnum));
    if (call.throw_at >= begin && call.throw_at < end)
    {
        throw op_error(call.id, call.throw_at);
    }
}

void do_call(parallel::pool_t& pool, shared_t& sh, int cid)
{
    const call_t& call = sh.calls[static_cast<size_t>(cid)];
    simrt_record(K_CALL, call.id, call.variant, call.elements, call.chunk);
    int64_t outcome = 0;
    try
    {
        const call_t* pc = &call;
        switch (call.variant)
        {
        case 0:
            pool.map(
                call.elements, [pc](int64_t index, size_t tnum) { run_operator(*pc, index, index + 1, tnum); }, call.raise);
            break;
        case 1:
            pool.map(
                call.elements, call.chunk, [pc](int64_t begin, int64_t end, size_t tnum) { run_operator(*pc, begin, end, tnum); },
                call.raise);
            break;
        default:
            sh.futures[static_cast<size_t>(cid)] = pool.enqueue([pc](size_t tnum) { run_operator(*pc, 0, 1, tnum); });
            if (call.wait_mode == 0)
            {
                sh.futures[static_cast<size_t>(cid)].get();
            }
            else if (call.wait_mode == 1)
            {
                sh.futures[static_cast<size_t>(cid)].wait();
            }
            break;
        }
    }
    catch (const op_error& e)
    {
        outcome = e.call == call.id ? 1 : 2;
    }
    catch (...)
    {
        outcome = 2;
    }
    simrt_record(K_RET, call.id, outcome, 0, 0);
}

void run(vf::ctx_t& c)
{
    auto& r = c.wl;
    c.begin_sim(static_cast<int>(c.knob("max_cores", 16)));

    const auto scenario   = c.knob("scenario", r.range(0, 9)); // 0-5 threads, 6-7 outer pool, 8 create/destroy, 9 single
    const auto max_pool   = c.knob("max_pool", 16);
    auto       pool_req   = c.knob("pool_req", r.coin(0.6) ? r.range(1, 4) : r.range(1, 18));
    pool_req              = std::min(pool_req, max_pool);
    const auto nsub       = c.knob("submitters", scenario == 9 ? 1 : r.range(1, 4));
    const auto max_ops    = c.knob("max_ops", 6);
    const auto max_elems  = c.knob("max_elements", 5000);
    const auto allow_thr  = c.knob("allow_throw", 1);
    const auto allow_yld  = c.knob("allow_yield", 1);
    const auto allow_abandon = c.knob("allow_abandon", 1);

    shared_t sh;
    sh.ctx = &c;
    sh.per_submitter.resize(static_cast<size_t>(nsub));
    int64_t total_tasks = 0;
    for (int64_t s = 0; s < nsub; ++s)
    {
        const auto nops = scenario == 8 ? r.range(0, 1) : std::min<int64_t>(r.range(1, 6), max_ops);
        for (int64_t o = 0; o < nops; ++o)
        {
            call_t call;
            call.id      = static_cast<int>(sh.calls.size());
            call.variant = static_cast<int>(r.range(0, 2));
            const auto u = r.unit();
            call.elements = u < 0.6 ? r.range(0, 12) : (u < 0.92 ? r.range(13, 200) : r.range(201, 5000));
            call.elements = std::min(call.elements, max_elems);
            // keep a run bounded: at most ~6000 tasks overall
            if (total_tasks + call.elements > 6000)
            {
                call.elements = r.range(0, 12);
            }
            call.chunk   = r.coin(0.5) ? r.range(1, 4) : r.range(1, call.elements + 1);
            call.raise   = r.coin(0.5);
            call.yields  = allow_yld != 0 && r.coin(0.5) ? static_cast<int>(r.range(1, 3)) : 0;
            if (call.elements > 50)
            {
                call.yields = std::min(call.yields, 1);
            }
            const bool thr = allow_thr != 0 && c.faults_enabled && c.faults.coin(0.25);
            if (call.variant == 2)
            {
                call.elements  = 1;
                call.chunk     = 1;
                call.throw_at  = thr ? 0 : -1;
                call.wait_mode = static_cast<int>(r.range(0, allow_abandon != 0 ? 2 : 1));
            }
            else
            {
                call.throw_at = thr && call.elements > 0 ? c.faults.range(0, call.elements - 1) : -1;
            }
            total_tasks += call.variant == 1 ? (call.elements + call.chunk - 1) / call.chunk : call.elements;
            sh.per_submitter[static_cast<size_t>(s)].push_back(call.id);
            sh.calls.push_back(call);
        }
    }
    sh.futures.resize(sh.calls.size());

    size_t pool_size = 0;
    {
        std::ostringstream d;
        d << "scenario=" << scenario << " pool_req=" << pool_req << " cores=" << c.cfg.cores << " submitters=" << nsub << " calls=[";
        for (const auto& call : sh.calls)
        {
            d << (call.variant == 0 ? "map" : call.variant == 1 ? "mapchunk" : "enqueue") << "(" << call.elements;
            if (call.variant == 1)
            {
                d << "/" << call.chunk;
            }
            d << (call.raise ? ",raise" : "") << (call.throw_at >= 0 ? ",throw@" + std::to_string(call.throw_at) : std::string())
              << (call.yields ? ",y" + std::to_string(call.yields) : std::string())
              << (call.variant == 2 ? ",w" + std::to_string(call.wait_mode) : std::string()) << ") ";
        }
        d << "]";
        c.sample = d.str();
    }

    {
        auto pool = std::make_unique<parallel::pool_t>(static_cast<size_t>(pool_req));
        pool_size = pool->size();
        if (pool_size != static_cast<size_t>(std::clamp<int64_t>(pool_req, 1, c.cfg.cores)))
        {
            c.fail("pool-size", "pool size " + std::to_string(pool_size) + " is not the request clamped to [1, cores]");
        }
        if (pool_req > c.cfg.cores)
        {
            c.probe("pool_request_clamped");
        }

        if (scenario >= 6 && scenario <= 7 && nsub >= 2)
        {
            // submitters are the workers of an outer pool (how ml::tune drives the dataset pool)
            c.probe("submitters_are_outer_pool_workers");
            parallel::pool_t outer(static_cast<size_t>(nsub));
            auto*            ppool = pool.get();
            auto*            psh   = &sh;
            outer.map(nsub,
                      [ppool, psh](int64_t s, size_t)
                      {
                          for (const int cid : psh->per_submitter[static_cast<size_t>(s)])
                          {
                              do_call(*ppool, *psh, cid);
                          }
                      });
        }
        else if (nsub == 1)
        {
            for (const int cid : sh.per_submitter[0])
            {
                do_call(*pool, sh, cid);
            }
        }
        else
        {
            std::vector<std::thread> threads;
            threads.reserve(static_cast<size_t>(nsub));
            for (int64_t s = 0; s < nsub; ++s)
            {
                threads.emplace_back(
                    [&sh, &pool, s]()
                    {
                        for (const int cid : sh.per_submitter[static_cast<size_t>(s)])
                        {
                            do_call(*pool, sh, cid);
                        }
                    });
            }
            for (auto& t : threads)
            {
                t.join();
            }
        }

        simrt_record(K_DTOR_BEGIN, 0, 0, 0, 0);
        pool.reset();
        simrt_record(K_DTOR_END, 0, 0, 0, 0);
    }

    // abandoned futures must be ready now (value, the task's exception or broken_promise); a future that never becomes
    // ready shows up as a deadlock state of the simulation
    std::vector<int> abandoned_outcome(sh.calls.size(), -1); // 0 value, 1 op_error, 2 broken promise, 3 other
    for (const auto& call : sh.calls)
    {
        if (call.variant == 2 && call.wait_mode == 2)
        {
            auto& f = sh.futures[static_cast<size_t>(call.id)];
            try
            {
                f.get();
                abandoned_outcome[static_cast<size_t>(call.id)] = 0;
            }
            catch (const op_error&)
            {
                abandoned_outcome[static_cast<size_t>(call.id)] = 1;
            }
            catch (const std::future_error& e)
            {
                abandoned_outcome[static_cast<size_t>(call.id)] = e.code() == std::future_errc::broken_promise ? 2 : 3;
            }
            catch (...)
            {
                abandoned_outcome[static_cast<size_t>(call.id)] = 3;
            }
        }
    }
    c.end_sim();

    // ------------------------------------------------------------------------------------------
    // oracle over the recorded history
    size_t     nrec = 0;
    const auto* rec = simrt_records(&nrec);

    struct span_t
    {
        int64_t  begin, end, tnum;
        uint64_t enter, leave;
        int      tid;
    };

    std::vector<std::vector<span_t>> spans(sh.calls.size());
    std::vector<uint64_t>            call_seq(sh.calls.size(), 0), ret_seq(sh.calls.size(), 0);
    std::vector<int64_t>             outcome(sh.calls.size(), -1);
    uint64_t                         dtor_begin = 0, dtor_end = 0;
    for (size_t i = 0; i < nrec; ++i)
    {
        const auto& e = rec[i];
        const auto  cid = static_cast<size_t>(e.a);
        switch (e.kind)
        {
        case K_CALL: call_seq[cid] = e.seq; break;
        case K_RET:
            ret_seq[cid] = e.seq;
            outcome[cid] = e.b;
            break;
        case K_ENTER: spans[cid].push_back(span_t{e.b, e.c, e.d, e.seq, 0, e.tid}); break;
        case K_LEAVE:
        {
            bool found = false;
            for (auto& s : spans[cid])
            {
                if (s.begin == e.b && s.end == e.c && s.leave == 0 && s.tid == e.tid)
                {
                    s.leave = e.seq;
                    found   = true;
                    break;
                }
            }
            if (!found)
            {
                c.fail("history", "leave without enter");
            }
            break;
        }
        case K_DTOR_BEGIN: dtor_begin = e.seq; break;
        case K_DTOR_END: dtor_end = e.seq; break;
        default: break;
        }
    }
    if (dtor_end == 0)
    {
        c.fail("shutdown", "destructor did not return");
    }

    for (const auto& call : sh.calls)
    {
        const auto  cid  = static_cast<size_t>(call.id);
        const auto& ss   = spans[cid];
        const auto  what = "call " + std::to_string(call.id) + " variant " + std::to_string(call.variant) + " elements " +
                          std::to_string(call.elements) + " chunk " + std::to_string(call.chunk) + " pool " + std::to_string(pool_size);
        // which path does the public contract allow? (inline: whole call in the caller's thread with worker id 0)
        const bool inline_path = call.variant != 2 && (pool_size == 1 || (call.variant == 0 ? call.elements <= 1 : call.chunk >= call.elements));
        for (const auto& s : ss)
        {
            if (s.tnum < 0 || s.tnum >= static_cast<int64_t>(pool_size))
            {
                c.fail("worker-id", what + ": worker id " + std::to_string(s.tnum) + " not below the pool size");
            }
            if (s.begin >= s.end)
            {
                c.fail("tiling", what + ": empty chunk [" + std::to_string(s.begin) + "," + std::to_string(s.end) + ")");
            }
            if (s.begin < 0 || s.end > std::max<int64_t>(call.elements, call.variant == 2 ? 1 : 0))
            {
                c.fail("tiling", what + ": chunk outside [0, elements)");
            }
        }
        if (call.variant == 2)
        {
            // enqueue: at most once always; exactly once if it was waited for
            if (ss.size() > 1)
            {
                c.fail("double-run", what + ": enqueued task ran " + std::to_string(ss.size()) + " times");
            }
            if (call.wait_mode != 2)
            {
                if (ss.size() != 1 || ss[0].leave == 0 || ss[0].leave > ret_seq[cid])
                {
                    c.fail("completion", what + ": get()/wait() returned before the task finished");
                }
                const int64_t expect = call.wait_mode == 0 && call.throw_at >= 0 ? 1 : 0;
                if (outcome[cid] != expect)
                {
                    c.fail("exception", what + ": outcome " + std::to_string(outcome[cid]) + " expected " + std::to_string(expect));
                }
            }
            else
            {
                const int ao = abandoned_outcome[cid];
                if (ao == 3 || ao < 0)
                {
                    c.fail("abandoned-future", what + ": unexpected state of an abandoned future");
                }
                if (ss.size() == 1 && ss[0].leave != 0)
                {
                    // ran to completion: the future must carry the task's own outcome
                    if (ao != (call.throw_at >= 0 ? 1 : 0))
                    {
                        c.fail("abandoned-future", what + ": task ran but its future reports outcome " + std::to_string(ao));
                    }
                    c.probe(ss[0].leave > dtor_begin ? "task_finished_during_destructor" : "abandoned_task_ran");
                    if (ss[0].enter < dtor_begin && ss[0].leave > dtor_begin)
                    {
                        c.probe("destructor_entered_while_task_runs");
                    }
                }
                else if (ss.empty())
                {
                    if (ao != 2)
                    {
                        c.fail("abandoned-future", what + ": task never ran but its future is not a broken promise");
                    }
                    c.probe("queued_task_dropped_by_shutdown");
                }
            }
            continue;
        }

        // map calls
        const bool threw_inline = inline_path && call.throw_at >= 0;
        // exactly once + tiling
        std::vector<int> hits(static_cast<size_t>(call.elements), 0);
        for (const auto& s : ss)
        {
            for (int64_t i = std::max<int64_t>(s.begin, 0); i < std::min(s.end, call.elements); ++i)
            {
                ++hits[static_cast<size_t>(i)];
            }
            if (call.variant == 0 && s.end != s.begin + 1)
            {
                c.fail("tiling", what + ": element-wise map delivered a range");
            }
        }
        for (int64_t i = 0; i < call.elements; ++i)
        {
            const int h = hits[static_cast<size_t>(i)];
            if (h > 1)
            {
                c.fail("double-run", what + ": index " + std::to_string(i) + " processed " + std::to_string(h) + " times");
            }
            if (h == 0)
            {
                // the sequential path stops at the first exception (sequential semantics); nothing else may be skipped
                const bool excused = threw_inline && i > call.throw_at;
                if (!excused)
                {
                    c.fail("lost-task", what + ": index " + std::to_string(i) + " never processed");
                }
            }
        }
        // completion: every operator left before map returned
        for (const auto& s : ss)
        {
            if (s.leave == 0 || s.leave > ret_seq[cid] || s.enter < call_seq[cid])
            {
                c.fail("completion", what + ": map returned before all its tasks finished");
            }
        }
        // worker ids: no two tasks of the same call overlap in time with the same id
        for (size_t i = 0; i < ss.size(); ++i)
        {
            for (size_t j = i + 1; j < ss.size() && ss.size() <= 400; ++j)
            {
                if (ss[i].tnum == ss[j].tnum && ss[i].enter < ss[j].leave && ss[j].enter < ss[i].leave)
                {
                    c.fail("worker-id-collision", what + ": two tasks of one call ran at the same time with worker id " +
                                                      std::to_string(ss[i].tnum));
                }
            }
        }
        if (ss.size() > 400)
        {
            // large calls: sweep per worker id (sorted by enter)
            std::map<int64_t, std::vector<std::pair<uint64_t, uint64_t>>> by;
            for (const auto& s : ss)
            {
                by[s.tnum].emplace_back(s.enter, s.leave);
            }
            for (auto& [tn, v] : by)
            {
                std::sort(v.begin(), v.end());
                for (size_t i = 1; i < v.size(); ++i)
                {
                    if (v[i].first < v[i - 1].second)
                    {
                        c.fail("worker-id-collision", what + ": overlapping tasks with worker id " + std::to_string(tn));
                    }
                }
            }
        }
        // exceptions
        if (call.throw_at >= 0)
        {
            c.fire("operator_exception");
            if (inline_path)
            {
                // sequential path: the exception propagates from the caller's own loop; the statement only demands
                // the re-throw "when asked to", so nothing is required for raise=false
                if (call.raise && outcome[cid] != 1)
                {
                    c.fail("exception", what + ": exception of the sequential path lost");
                }
                c.probe("exception_on_sequential_path");
            }
            else
            {
                const int64_t expect = call.raise ? 1 : 0;
                if (outcome[cid] != expect)
                {
                    c.fail("exception", what + ": raise=" + std::to_string(call.raise) + " but outcome " + std::to_string(outcome[cid]));
                }
                c.probe(call.raise ? "exception_rethrown_in_caller" : "exception_swallowed_as_asked");
            }
        }
        else if (outcome[cid] != 0)
        {
            c.fail("exception", what + ": exception although no task threw");
        }
        if (!inline_path)
        {
            c.probe("map_through_queue");
            std::map<int64_t, int> used;
            for (const auto& s : ss)
            {
                used[s.tnum]++;
            }
            if (used.size() >= 2)
            {
                c.probe("map_used_several_workers");
            }
        }
    }
    // interleaving probes: two submitters' calls overlapped in time
    for (size_t a = 0; a < sh.calls.size(); ++a)
    {
        for (size_t b = a + 1; b < sh.calls.size(); ++b)
        {
            if (call_seq[a] < ret_seq[b] && call_seq[b] < ret_seq[a])
            {
                c.probe("calls_overlapped_in_time");
                a = sh.calls.size();
                break;
            }
        }
    }
    c.dig(static_cast<uint64_t>(nrec));
    for (size_t i = 0; i < nrec; ++i)
    {
        c.dig(vf::mix(rec[i].seq, static_cast<uint64_t>(rec[i].kind) * 131 + static_cast<uint64_t>(rec[i].a) * 7 +
                                      static_cast<uint64_t>(rec[i].b) * 3 + static_cast<uint64_t>(rec[i].d)));
    }
}
} // namespace

int main(int argc, char** argv)
{
    // NB: the warm-up must not touch the pool under test with real threads (a broken pool would hang here, outside the
    // simulator's control); futures, packaged tasks and exceptions through them are warmed up with plain threads
    return vf::worker_main(argc, argv, "C17", run,
                           []
                           {
                               std::packaged_task<void(size_t)> ok([](size_t) {});
                               std::packaged_task<void(size_t)> bad([](size_t) { throw std::runtime_error("warm"); });
                               auto                             f1 = ok.get_future().share();
                               auto                             f2 = bad.get_future().share();
                               std::thread                      t([&] { ok(0); bad(1); });
                               f1.get();
                               try
                               {
                                   f2.get();
                               }
                               catch (const std::exception&)
                               {
                               }
                               t.join();
                               {
                                   std::packaged_task<void(size_t)> dropped([](size_t) {});
                                   auto                             f3 = dropped.get_future().share();
                                   {
                                       auto moved = std::move(dropped);
                                   }
                                   try
                                   {
                                       f3.get();
                                   }
                                   catch (const std::future_error&)
                                   {
                                   }
                               }
                           });
}
