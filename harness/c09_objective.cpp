// C09 - ML objectives equal their definitions for any thread count, batch size and cache setting.
// One run builds a seeded dataset and evaluates the SAME (objective, x) under several configurations (simulated cores, pool
// size, batch, cached or not, schedule); each value and gradient is compared with the naive per-sample formula computed by
// the harness from dataset_t::flatten / targets called directly (no iterator, no pool), and the configurations are compared
// pairwise. The loss handed to the library yields to the scheduler inside every call, which puts a pre-emption point between
// "per-thread buffer filled" and "buffer consumed" in every pool task.
#include "mldata.h"

#include <nano/gboost/function.h>
#include <nano/linear/function.h>

using namespace nano;
using vf::ctx_t;
using vrng = vf::rng_t;

namespace
{
// forwards to a registered loss after a schedule point
class yloss_t final : public loss_t
{
public:
    explicit yloss_t(const loss_t& inner)
        : loss_t("yield-" + inner.type_id())
        , m_inner(inner.clone())
    {
        convex(inner.convex());
        smooth(inner.smooth());
    }

    yloss_t(const yloss_t& other)
        : loss_t(other)
        , m_inner(other.m_inner->clone())
    {
    }

    rloss_t clone() const override { return std::make_unique<yloss_t>(*this); }

    void error(tensor4d_cmap_t targets, tensor4d_cmap_t outputs, tensor1d_map_t errors) const override
    {
        simrt_yield("loss-error");
        m_inner->error(targets, outputs, errors);
    }

    void value(tensor4d_cmap_t targets, tensor4d_cmap_t outputs, tensor1d_map_t values) const override
    {
        simrt_yield("loss-value");
        m_inner->value(targets, outputs, values);
    }

    void vgrad(tensor4d_cmap_t targets, tensor4d_cmap_t outputs, tensor4d_map_t vgrads) const override
    {
        simrt_yield("loss-vgrad");
        m_inner->vgrad(targets, outputs, vgrads);
    }

private:
    rloss_t m_inner;
};

struct eval_t
{
    double              fx{0};
    std::vector<double> gx;
    bool                threw{false};
    std::string         what;
};

bool agree(const eval_t& a, const eval_t& b, double rel, double floor, std::string& why)
{
    if (a.threw != b.threw)
    {
        why = "one evaluation threw (" + a.what + b.what + ")";
        return false;
    }
    if (a.threw)
    {
        return true;
    }
    if (!vf::close(a.fx, b.fx, rel, floor))
    {
        why = "value " + std::to_string(a.fx) + " vs " + std::to_string(b.fx);
        return false;
    }
    if (a.gx.size() != b.gx.size())
    {
        why = "gradient size";
        return false;
    }
    double scale = 0.0;
    for (size_t i = 0; i < a.gx.size(); ++i)
    {
        scale = std::max({scale, std::fabs(a.gx[i]), std::fabs(b.gx[i])});
    }
    for (size_t i = 0; i < a.gx.size(); ++i)
    {
        // component-wise with the gradient's own magnitude as floor (sums of many terms cancel)
        if (!vf::close(a.gx[i], b.gx[i], rel, floor + rel * scale))
        {
            why = "gradient component " + std::to_string(i) + ": " + std::to_string(a.gx[i]) + " vs " + std::to_string(b.gx[i]);
            return false;
        }
    }
    return true;
}

struct setup_t
{
    std::unique_ptr<vf::sim_datasource_t> source;
    indices_t                             samples;
    rloss_t                               loss;
    std::unique_ptr<yloss_t>              yloss;
    scaling_type                          scaling{scaling_type::none};
    double                                l1{0}, l2{0};
    int                                   mode{0};
    std::vector<double>                   x;        // parameter vector (linear: weights+bias, bias fn: bias, scale fn: scales)
    std::vector<double>                   soutputs; // gboost: strong learner outputs (all samples x tsize)
    std::vector<double>                   woutputs; // gboost: weak learner outputs
    std::vector<int64_t>                  cluster;  // gboost scale: group per sample (-1 unassigned)
    int64_t                               groups{1};
};

struct config_t
{
    int     cores{1};
    int64_t pool{1};
    int64_t batch{100};
    bool    cache_inputs{false}, cache_targets{false};
    // calls made on the SAME function object before the compared one: (with gradient?, factor applied to the parameter vector).
    // A solver evaluates one function object many times, with and without gradients: the compared call must not depend on them.
    std::vector<std::pair<bool, double>> history;
};


rloss_t pick_loss(vrng& r, const feature_t& target)
{
    strings_t ids;
    for (const auto& id : loss_t::all().ids())
    {
        const bool s = id.rfind("s-", 0) == 0, m = id.rfind("m-", 0) == 0;
        if ((target.is_sclass() && s) || (target.is_mclass() && m) || (!target.is_sclass() && !target.is_mclass() && !s && !m))
        {
            ids.push_back(id);
        }
    }
    return loss_t::all().get(r.pick(ids));
}

double pick_reg(vrng& r)
{
    return r.coin(0.4) ? 0.0 : std::pow(10.0, r.real(-6.0, 6.0));
}

// the objective under one configuration, through the library
eval_t evaluate(const setup_t& s, const config_t& cfg)
{
    eval_t e;
    simrt_set_cores(cfg.cores);
    try
    {
        auto dataset = dataset_t{*s.source, static_cast<size_t>(cfg.pool)};
        vf::add_identity_generators(dataset);
        const auto tsize = ::nano::size(dataset.target_dims());
        vector_t   xv(static_cast<tensor_size_t>(s.x.size()));
        std::copy(s.x.begin(), s.x.end(), xv.data());
        vector_t gx(static_cast<tensor_size_t>(s.x.size()));
        const auto warm = [&](const auto& function, const vector_t& x0)
        {
            for (const auto& [with_gradient, factor] : cfg.history)
            {
                vector_t xh = x0;
                xh.array() *= factor;
                vector_t gh(xh.size());
                try
                {
                    (void)(with_gradient ? function.vgrad(xh, gh) : function.vgrad(xh));
                }
                catch (const std::exception&)
                {
                }
            }
        };
        if (s.mode == 0)
        {
            auto iterator = flatten_iterator_t{dataset, s.samples};
            iterator.batch(cfg.batch);
            iterator.scaling(s.scaling);
            if (cfg.cache_inputs)
            {
                iterator.cache_flatten(std::numeric_limits<tensor_size_t>::max());
            }
            if (cfg.cache_targets)
            {
                iterator.cache_targets(std::numeric_limits<tensor_size_t>::max());
            }
            const auto function = linear::function_t{iterator, *s.yloss, s.l1, s.l2};
            warm(function, xv);
            // value-only and value+gradient calls must agree as well
            const auto fx0 = function.vgrad(xv);
            e.fx           = function.vgrad(xv, gx);
            if (vf::bits(fx0) != vf::bits(e.fx) && !vf::close(fx0, e.fx, 1e-9, 1e-300))
            {
                e.what  = "value-only call differs from value+gradient call";
                e.threw = true;
            }
        }
        else
        {
            auto iterator = targets_iterator_t{dataset, s.samples};
            iterator.batch(cfg.batch);
            iterator.scaling(scaling_type::none);
            if (cfg.cache_targets)
            {
                iterator.cache_targets(std::numeric_limits<tensor_size_t>::max());
            }
            const auto odims = cat_dims(dataset.samples(), dataset.target_dims());
            if (s.mode == 1)
            {
                const auto function = gboost::bias_function_t{iterator, *s.yloss};
                warm(function, xv);
                e.fx                = function.vgrad(xv, gx);
            }
            else if (s.mode == 2)
            {
                cluster_t cluster(dataset.samples(), s.groups);
                for (tensor_size_t i = 0; i < dataset.samples(); ++i)
                {
                    if (s.cluster[static_cast<size_t>(i)] >= 0)
                    {
                        cluster.assign(i, s.cluster[static_cast<size_t>(i)]);
                    }
                }
                tensor4d_t so(odims), wo(odims);
                std::copy(s.soutputs.begin(), s.soutputs.end(), so.data());
                std::copy(s.woutputs.begin(), s.woutputs.end(), wo.data());
                const auto function = gboost::scale_function_t{iterator, *s.yloss, cluster, so, wo};
                warm(function, xv);
                e.fx                = function.vgrad(xv, gx);
            }
            else
            {
                // grads function over ALL samples of the iterator: x = outputs of the iterator's samples
                const auto function = gboost::grads_function_t{iterator, *s.yloss};
                vector_t outs(s.samples.size() * tsize), g(s.samples.size() * tsize);
                for (tensor_size_t i = 0; i < s.samples.size(); ++i)
                {
                    for (tensor_size_t k = 0; k < tsize; ++k)
                    {
                        outs(i * tsize + k) = s.soutputs[static_cast<size_t>(s.samples(i) * tsize + k)];
                    }
                }
                warm(function, outs);
                e.fx = function.vgrad(outs, g);
                gx   = g;
            }
        }
        e.gx.assign(gx.data(), gx.data() + gx.size());
    }
    catch (const std::exception& ex)
    {
        e.threw = true;
        e.what  = ex.what();
    }
    return e;
}

// the definition, one sample at a time, from the direct (non-iterated, non-pooled) dataset views
eval_t reference(const setup_t& s)
{
    eval_t e;
    simrt_set_cores(1);
    try
    {
        auto dataset = dataset_t{*s.source, 1U};
        vf::add_identity_generators(dataset);
        const auto  tsize = ::nano::size(dataset.target_dims());
        const auto  isize = dataset.columns();
        const auto  n     = s.samples.size();
        const auto& loss  = *s.loss; // the registered loss itself (no yield)
        tensor4d_t  tbuf;
        tensor4d_t  targets = dataset.targets(s.samples, tbuf);
        tensor1d_t  value(1);
        tensor4d_t  vgrad(cat_dims(1, dataset.target_dims())), output(cat_dims(1, dataset.target_dims()));
        if (s.mode == 0)
        {
            // the iterator is only used as the owner of the statistics (scaling is decided under C14)
            auto       iterator = flatten_iterator_t{dataset, s.samples};
            tensor2d_t fbuf;
            tensor2d_t inputs = dataset.flatten(s.samples, fbuf);
            iterator.flatten_stats().scale(s.scaling, inputs.tensor());
            iterator.targets_stats().scale(s.scaling, targets.tensor());
            e.gx.assign(s.x.size(), 0.0);
            const auto W = [&](tensor_size_t o, tensor_size_t i) { return s.x[static_cast<size_t>(o * isize + i)]; };
            const auto b = [&](tensor_size_t o) { return s.x[static_cast<size_t>(isize * tsize + o)]; };
            double     sum = 0.0;
            for (tensor_size_t k = 0; k < n; ++k)
            {
                for (tensor_size_t o = 0; o < tsize; ++o)
                {
                    double v = b(o);
                    for (tensor_size_t i = 0; i < isize; ++i)
                    {
                        v += W(o, i) * inputs(k, i);
                    }
                    output(o) = v;
                }
                loss.value(targets.slice(k, k + 1), output, value.tensor());
                loss.vgrad(targets.slice(k, k + 1), output, vgrad.tensor());
                sum += value(0);
                for (tensor_size_t o = 0; o < tsize; ++o)
                {
                    for (tensor_size_t i = 0; i < isize; ++i)
                    {
                        e.gx[static_cast<size_t>(o * isize + i)] += vgrad(o) * inputs(k, i);
                    }
                    e.gx[static_cast<size_t>(isize * tsize + o)] += vgrad(o);
                }
            }
            for (auto& g : e.gx)
            {
                g /= static_cast<double>(n);
            }
            e.fx = sum / static_cast<double>(n);
            // regularisation: l1 * mean|W| + (l2/2) * mean(W^2)
            const auto wn   = static_cast<double>(isize * tsize);
            double     l1s = 0.0, l2s = 0.0;
            for (tensor_size_t j = 0; j < isize * tsize; ++j)
            {
                const auto w = s.x[static_cast<size_t>(j)];
                l1s += std::fabs(w);
                l2s += w * w;
                if (s.l1 > 0.0)
                {
                    e.gx[static_cast<size_t>(j)] += s.l1 * (w > 0.0 ? 1.0 : (w < 0.0 ? -1.0 : 0.0)) / wn;
                }
                if (s.l2 > 0.0)
                {
                    e.gx[static_cast<size_t>(j)] += s.l2 * w / wn;
                }
            }
            if (s.l1 > 0.0)
            {
                e.fx += s.l1 * l1s / wn;
            }
            if (s.l2 > 0.0)
            {
                e.fx += 0.5 * s.l2 * l2s / wn;
            }
        }
        else if (s.mode == 1)
        {
            e.gx.assign(static_cast<size_t>(tsize), 0.0);
            double sum = 0.0;
            for (tensor_size_t k = 0; k < n; ++k)
            {
                for (tensor_size_t o = 0; o < tsize; ++o)
                {
                    output(o) = s.x[static_cast<size_t>(o)];
                }
                loss.value(targets.slice(k, k + 1), output, value.tensor());
                loss.vgrad(targets.slice(k, k + 1), output, vgrad.tensor());
                sum += value(0);
                for (tensor_size_t o = 0; o < tsize; ++o)
                {
                    e.gx[static_cast<size_t>(o)] += vgrad(o) / static_cast<double>(n);
                }
            }
            e.fx = sum / static_cast<double>(n);
        }
        else if (s.mode == 2)
        {
            e.gx.assign(static_cast<size_t>(s.groups), 0.0);
            double sum = 0.0;
            for (tensor_size_t k = 0; k < n; ++k)
            {
                const auto sample = s.samples(k);
                const auto group  = s.cluster[static_cast<size_t>(sample)];
                const auto scale  = group < 0 ? 0.0 : s.x[static_cast<size_t>(group)];
                for (tensor_size_t o = 0; o < tsize; ++o)
                {
                    output(o) = s.soutputs[static_cast<size_t>(sample * tsize + o)] + scale * s.woutputs[static_cast<size_t>(sample * tsize + o)];
                }
                loss.value(targets.slice(k, k + 1), output, value.tensor());
                loss.vgrad(targets.slice(k, k + 1), output, vgrad.tensor());
                sum += value(0);
                if (group >= 0)
                {
                    double gw = 0.0;
                    for (tensor_size_t o = 0; o < tsize; ++o)
                    {
                        gw += vgrad(o) * s.woutputs[static_cast<size_t>(sample * tsize + o)];
                    }
                    e.gx[static_cast<size_t>(group)] += gw / static_cast<double>(n);
                }
            }
            e.fx = sum / static_cast<double>(n);
        }
        else
        {
            e.gx.assign(static_cast<size_t>(n * tsize), 0.0);
            double sum = 0.0;
            for (tensor_size_t k = 0; k < n; ++k)
            {
                const auto sample = s.samples(k);
                for (tensor_size_t o = 0; o < tsize; ++o)
                {
                    output(o) = s.soutputs[static_cast<size_t>(sample * tsize + o)];
                }
                loss.value(targets.slice(k, k + 1), output, value.tensor());
                loss.vgrad(targets.slice(k, k + 1), output, vgrad.tensor());
                sum += value(0);
                for (tensor_size_t o = 0; o < tsize; ++o)
                {
                    e.gx[static_cast<size_t>(k * tsize + o)] = vgrad(o) / static_cast<double>(n);
                }
            }
            e.fx = sum / static_cast<double>(n);
        }
    }
    catch (const std::exception& ex)
    {
        e.threw = true;
        e.what  = ex.what();
    }
    return e;
}

void body(ctx_t& c)
{
    auto& r = c.wl;
    setup_t s;
    s.mode = static_cast<int>(c.knob("mode", r.pick<int64_t>({0, 0, 0, 1, 2, 2, 3})));
    vf::schema_opts_t o;
    o.min_features = 1;
    o.max_features = 10;
    o.min_samples  = 1;
    o.max_samples  = static_cast<int>(c.knob("max_samples", r.coin(0.8) ? 40 : 200));
    o.max_classes  = 5;
    o.target_kind  = static_cast<int>(r.pick<int64_t>({1, 1, 2, 3, 4}));
    auto schema    = vf::random_schema(r, o);
    s.source       = std::make_unique<vf::sim_datasource_t>(schema, r.next(), r.coin(0.4) ? 0.0 : 0.2, true, static_cast<int>(r.range(0, 2)));
    s.source->load();
    const auto total = s.source->samples();
    // random sample subset (sorted, distinct) or everything
    if (r.coin(0.5))
    {
        s.samples = arange(0, total);
    }
    else
    {
        std::vector<tensor_size_t> pick;
        for (tensor_size_t i = 0; i < total; ++i)
        {
            if (r.coin(0.6))
            {
                pick.push_back(i);
            }
        }
        if (pick.empty())
        {
            pick.push_back(r.range(0, total - 1));
        }
        s.samples = indices_t(static_cast<tensor_size_t>(pick.size()));
        std::copy(pick.begin(), pick.end(), std::begin(s.samples));
    }
    const auto& target = schema.features[schema.target];
    s.loss             = pick_loss(r, target);
    s.yloss            = std::make_unique<yloss_t>(*s.loss);
    s.scaling          = static_cast<scaling_type>(r.range(0, 3));
    s.l1               = pick_reg(r);
    s.l2               = pick_reg(r);
    tensor_size_t tsize = 1, isize = 1;
    {
        simrt_set_cores(1);
        auto dataset = dataset_t{*s.source, 1U};
        vf::add_identity_generators(dataset);
        tsize = ::nano::size(dataset.target_dims());
        isize = dataset.columns();
    }
    if (isize == 0)
    {
        // a single-class categorical input has C-1 = 0 columns: no linear model to speak of
        c.probe("degenerate_no_columns");
        c.sample = "degenerate schema without columns";
        return;
    }
    const auto mag = r.coin(0.8) ? 1.0 : 10.0;
    if (s.mode == 0)
    {
        for (tensor_size_t i = 0; i < (isize + 1) * tsize; ++i)
        {
            s.x.push_back(r.coin(0.1) ? 0.0 : r.real(-mag, mag));
        }
    }
    else
    {
        s.groups = r.range(1, 4);
        for (tensor_size_t i = 0; i < total; ++i)
        {
            s.cluster.push_back(r.coin(0.2) ? -1 : r.range(0, s.groups - 1));
            for (tensor_size_t k = 0; k < tsize; ++k)
            {
                s.soutputs.push_back(r.real(-mag, mag));
                s.woutputs.push_back(r.real(-mag, mag));
            }
        }
        const auto nx = s.mode == 1 ? tsize : (s.mode == 2 ? s.groups : 0);
        for (tensor_size_t i = 0; i < nx; ++i)
        {
            s.x.push_back(r.real(-2.0, 2.0));
        }
    }

    const auto ref = reference(s);
    // 2-4 library configurations + always one with a single core (inline)
    std::vector<config_t> cfgs;
    const auto            ncfg = c.knob("configs", r.range(2, 4));
    for (int64_t i = 0; i < ncfg; ++i)
    {
        config_t k;
        k.cores         = i == 0 ? c.cfg.cores : static_cast<int>(r.pick<int64_t>({1, 2, 3, 4, 6, 16}));
        k.pool          = r.coin(0.5) ? r.range(1, 4) : r.range(1, 16);
        const auto u    = r.unit();
        k.batch         = u < 0.5 ? r.range(1, 12) : (u < 0.9 ? r.range(1, 100) : r.range(100, 10000));
        k.cache_inputs  = r.coin();
        k.cache_targets = r.coin();
        if (r.coin(0.5))
        {
            for (int64_t h = 0, n = r.range(1, 4); h < n; ++h)
            {
                k.history.emplace_back(r.coin(), r.pick(std::vector<double>{1.0, 0.5, -1.0, 1.25, 0.0}));
            }
        }
        cfgs.push_back(k);
    }
    {
        config_t k;
        k.cores = 1;
        k.pool  = 1;
        k.batch = r.range(1, 300);
        cfgs.push_back(k);
    }
    std::ostringstream d;
    d << (s.mode == 0 ? "linear" : s.mode == 1 ? "gboost-bias" : s.mode == 2 ? "gboost-scale" : "gboost-grads") << " loss=" << s.loss->type_id()
      << " samples=" << s.samples.size() << "/" << total << " columns=" << isize << " outputs=" << tsize << " scaling=" << static_cast<int>(s.scaling)
      << " l1=" << s.l1 << " l2=" << s.l2 << " configs=[";
    for (const auto& k : cfgs)
    {
        d << "cores" << k.cores << "/pool" << k.pool << "/batch" << k.batch << (k.cache_inputs ? "/ci" : "") << (k.cache_targets ? "/ct" : "") << (k.history.empty() ? "" : "/h" + std::to_string(k.history.size())) << " ";
    }
    d << "]";
    c.sample = d.str();

    std::vector<eval_t> evals;
    for (const auto& k : cfgs)
    {
        evals.push_back(evaluate(s, k));
        c.probe("configurations");
        if (std::min<int64_t>(k.pool, k.cores) >= 2 && k.batch < s.samples.size())
        {
            c.probe("configurations_through_the_pool");
        }
        if (k.cache_inputs || k.cache_targets)
        {
            c.probe("configurations_cached");
        }
        if (!k.history.empty())
        {
            c.probe("configurations_after_earlier_calls");
        }
    }
    // magnitude-aware floor: objective values are sums of n terms
    const double floor = 1e-12;
    std::string  why;
    for (size_t i = 0; i < evals.size() && !c.failed(); ++i)
    {
        if (!agree(ref, evals[i], 1e-9, floor, why))
        {
            std::ostringstream m;
            m << "configuration " << i << " (cores " << cfgs[i].cores << ", pool " << cfgs[i].pool << ", batch " << cfgs[i].batch
              << (cfgs[i].cache_inputs ? ", cached inputs" : "") << (cfgs[i].cache_targets ? ", cached targets" : "")
              << ") differs from the per-sample definition: " << why;
            c.fail("objective-differs-from-definition", m.str());
        }
        for (size_t j = 0; j < i && !c.failed(); ++j)
        {
            if (!agree(evals[j], evals[i], 1e-9, floor, why))
            {
                c.fail("objective-depends-on-configuration",
                       "configurations " + std::to_string(j) + " and " + std::to_string(i) + " disagree: " + why);
            }
        }
    }
    if (ref.threw)
    {
        c.probe("reference_threw");
    }
    c.probe(std::string("mode_") + (s.mode == 0 ? "linear" : s.mode == 1 ? "bias" : s.mode == 2 ? "scale" : "grads"));
    c.dig(ref.fx);
}

void run(ctx_t& c)
{
    c.begin_sim(static_cast<int>(c.knob("max_cores", 16)));
    body(c);
    c.end_sim();
}
} // namespace

int main(int argc, char** argv)
{
    return vf::worker_main(argc, argv, "C09", run, [] { vf::warm_factories(); });
}
