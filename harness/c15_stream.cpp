// C15 - serialization round-trips; truncated / corrupted streams are rejected.
// One run = one randomly configured / fitted object, serialized through the simulated storage layer (sim/simfs.h), then
//   * round trip with PRNG-sized reader chunks,
//   * EVERY truncation offset, once ending in a clean EOF and once in an I/O error (exhaustive per object),
//   * torn writes (disk full at a PRNG offset, a lost unflushed tail) followed by a restart that reads the durable image,
//   * corruption of tensor payload bytes (located by parsing the writer's call log) - must be rejected,
//   * corruption of the other bytes - anything but a crash / out-of-bounds access is accepted.
#include "mldata.h"
#include "../sim/simfs.h"

#include <nano/gboost/model.h>
#include <nano/linear.h>
#include <nano/loss.h>
#include <nano/lsearch0.h>
#include <nano/lsearchk.h>
#include <nano/solver.h>
#include <nano/splitter.h>
#include <nano/tensor/stream.h>
#include <nano/tuner.h>
#include <nano/wlearner.h>

#include <istream>
#include <ostream>

using namespace nano;
using vf::ctx_t;
using vrng = vf::rng_t;

namespace
{
enum class outcome
{
    success,
    failed_stream,
    exception
};

struct attempt_t
{
    outcome     result{outcome::success};
    std::string repr; // re-serialized bytes + behaviour digest of the object read (success only)
    std::string what;
};

// reads an object of the run's kind from the stream and returns its representation
using reader_t = std::function<std::string(std::istream&, bool& stream_ok)>;

struct object_t
{
    std::string                    kind;
    std::string                    bytes;
    std::vector<simfs::write_call> calls;
    std::string                    repr; // representation of the ORIGINAL object
    reader_t                       reader;
    reader_t                       reader_into_used; // the same read INTO an object that already holds other state (optional)
    std::function<void(std::ostream&)> writer;
};

attempt_t attempt(const object_t& obj, const std::string& image, size_t limit, bool error, uint64_t chunk_seed,
                  std::vector<simfs::flip> flips = {})
{
    simfs::source_buf buf(image, limit, error, chunk_seed, std::move(flips));
    std::istream      stream(&buf);
    attempt_t         a;
    try
    {
        bool ok = true;
        a.repr  = obj.reader(stream, ok);
        a.result = ok ? outcome::success : outcome::failed_stream;
    }
    catch (const std::bad_alloc&)
    {
        a.result = outcome::exception;
        a.what   = "bad_alloc";
    }
    catch (const std::exception& e)
    {
        a.result = outcome::exception;
        a.what   = e.what();
    }
    return a;
}

template <class tobject>
std::string serialize(const tobject& object)
{
    simfs::sink_buf buf;
    std::ostream    stream(&buf);
    ::nano::write(stream, object);
    return stream ? buf.bytes() : std::string("<write failed>");
}

// ---------------------------------------------------------------------------------------------
// parameter randomisation inside the declared domain
void randomize(configurable_t& object, vrng& r)
{
    for (const auto& param : object.parameters())
    {
        const auto name = param.name();
        try
        {
            std::visit(overloaded{[&](const parameter_t::enum_t& p) { object.parameter(name) = r.pick(p.m_domain); },
                                  [&](const parameter_t::irange_t& p)
                                  {
                                      const auto lo = p.m_min + (std::holds_alternative<LT_t>(p.m_mincomp) ? 1 : 0);
                                      const auto hi = p.m_max - (std::holds_alternative<LT_t>(p.m_maxcomp) ? 1 : 0);
                                      // favour small magnitudes: huge budgets only cost time
                                      const auto top = std::min<int64_t>(hi, lo + 2000);
                                      object.parameter(name) = r.range(lo, r.coin(0.8) ? top : hi);
                                  },
                                  [&](const parameter_t::frange_t& p)
                                  {
                                      const auto u = r.real(0.001, 0.999);
                                      auto       v = p.m_min + u * (p.m_max - p.m_min);
                                      if (p.m_min > 0.0 && p.m_max / p.m_min > 1e3)
                                      {
                                          v = std::exp(std::log(p.m_min) + u * (std::log(p.m_max) - std::log(p.m_min)));
                                      }
                                      object.parameter(name) = v;
                                  },
                                  [&](const parameter_t::iprange_t& p)
                                  {
                                      const auto lo = p.m_min + 1, hi = p.m_max - 1;
                                      auto       a = r.range(lo, hi), b = r.range(lo, hi);
                                      if (a > b)
                                      {
                                          std::swap(a, b);
                                      }
                                      if (a == b && std::holds_alternative<LT_t>(p.m_valcomp))
                                      {
                                          return;
                                      }
                                      object.parameter(name) = std::make_tuple(a, b);
                                  },
                                  [&](const parameter_t::fprange_t& p)
                                  {
                                      auto a = p.m_min + r.real(0.01, 0.99) * (p.m_max - p.m_min);
                                      auto b = p.m_min + r.real(0.01, 0.99) * (p.m_max - p.m_min);
                                      if (a > b)
                                      {
                                          std::swap(a, b);
                                      }
                                      if (!(a < b))
                                      {
                                          return;
                                      }
                                      object.parameter(name) = std::make_tuple(a, b);
                                  },
                                  [&](const string_t&)
                                  {
                                      string_t s;
                                      for (int64_t i = 0, n = r.range(0, 12); i < n; ++i)
                                      {
                                          s += static_cast<char>(r.range(32, 126));
                                      }
                                      object.parameter(name) = s;
                                  },
                                  [&](const std::monostate&) {}},
                       param.storage());
        }
        catch (const std::exception&)
        {
            // a rejected assignment leaves the previous value: fine for this harness
        }
    }
}

// ---------------------------------------------------------------------------------------------
// tensors of any scalar type and rank
template <class tscalar>
tscalar random_scalar(vrng& r)
{
    if constexpr (std::is_floating_point_v<tscalar>)
    {
        switch (r.next() % 12)
        {
        case 0: return std::numeric_limits<tscalar>::quiet_NaN();
        case 1: return static_cast<tscalar>(-0.0);
        case 2: return std::numeric_limits<tscalar>::infinity();
        case 3: return std::numeric_limits<tscalar>::max();
        case 4: return std::numeric_limits<tscalar>::denorm_min();
        case 5:
        case 6: return static_cast<tscalar>(0);
        default: return static_cast<tscalar>(r.real(-1e3, 1e3));
        }
    }
    else
    {
        switch (r.next() % 8)
        {
        case 0: return std::numeric_limits<tscalar>::max();
        case 1: return std::numeric_limits<tscalar>::min();
        case 2: return static_cast<tscalar>(0);
        default: return static_cast<tscalar>(r.next());
        }
    }
}

template <class tscalar, size_t trank>
object_t make_tensor_object(vrng& r)
{
    using ttensor = tensor_mem_t<tscalar, trank>;
    typename ttensor::tdims dims;
    tensor_size_t           total = 1;
    for (size_t i = 0; i < trank; ++i)
    {
        dims[i] = r.coin(0.06) ? 0 : r.range(1, 6);
        // keep the enumeration affordable
        if (total * std::max<tensor_size_t>(dims[i], 1) > 600)
        {
            dims[i] = 1;
        }
        total *= std::max<tensor_size_t>(dims[i], 1);
    }
    ttensor tensor(dims);
    for (tensor_size_t i = 0; i < tensor.size(); ++i)
    {
        tensor(i) = random_scalar<tscalar>(r);
    }
    object_t obj;
    obj.kind   = "tensor<" + std::to_string(sizeof(tscalar)) + (std::is_floating_point_v<tscalar> ? "f" : std::is_signed_v<tscalar> ? "i" : "u") +
               "," + std::to_string(trank) + ">";
    obj.writer = [tensor](std::ostream& s) { ::nano::write(s, tensor); };
    obj.reader = [](std::istream& s, bool& ok)
    {
        ttensor t;
        ::nano::read(s, t);
        ok = static_cast<bool>(s);
        return ok ? serialize(t) : std::string();
    };
    typename ttensor::tdims used_dims;
    for (size_t i = 0; i < trank; ++i)
    {
        used_dims[i] = r.range(1, 3);
    }
    obj.reader_into_used = [used_dims](std::istream& s, bool& ok)
    {
        ttensor t(used_dims);
        t.full(static_cast<tscalar>(7));
        ::nano::read(s, t);
        ok = static_cast<bool>(s);
        return ok ? serialize(t) : std::string();
    };
    obj.repr = serialize(tensor);
    return obj;
}

template <class tscalar>
object_t make_tensor_rank(vrng& r, int rank)
{
    switch (rank)
    {
    case 1: return make_tensor_object<tscalar, 1>(r);
    case 2: return make_tensor_object<tscalar, 2>(r);
    case 3: return make_tensor_object<tscalar, 3>(r);
    case 4: return make_tensor_object<tscalar, 4>(r);
    default: return make_tensor_object<tscalar, 5>(r);
    }
}

object_t make_tensor(vrng& r)
{
    const int rank = static_cast<int>(r.range(1, 5));
    switch (r.next() % 10)
    {
    case 0: return make_tensor_rank<int8_t>(r, rank);
    case 1: return make_tensor_rank<int16_t>(r, rank);
    case 2: return make_tensor_rank<int32_t>(r, rank);
    case 3: return make_tensor_rank<int64_t>(r, rank);
    case 4: return make_tensor_rank<uint8_t>(r, rank);
    case 5: return make_tensor_rank<uint16_t>(r, rank);
    case 6: return make_tensor_rank<uint32_t>(r, rank);
    case 7: return make_tensor_rank<uint64_t>(r, rank);
    case 8: return make_tensor_rank<float>(r, rank);
    default: return make_tensor_rank<double>(r, rank);
    }
}

// ---------------------------------------------------------------------------------------------
object_t make_parameter(vrng& r)
{
    parameter_t param;
    const auto  name = "p" + std::to_string(r.range(0, 999));
    switch (r.next() % 7)
    {
    case 0: param = parameter_t::make_enum(name, r.coin() ? feature_type::int16 : feature_type::mclass); break;
    case 1: param = parameter_t::make_integer(name, -10, LE, r.range(-10, 1000), r.coin() ? LEorLT{LE} : LEorLT{LT}, 1001); break;
    case 2: param = parameter_t::make_scalar(name, -1.0, LT, r.real(-0.99, 0.99), LE, 1.0); break;
    case 3:
    {
        const auto a = r.range(0, 50), b = r.range(51, 100);
        param        = parameter_t::make_integer_pair(name, 0, LE, a, LT, b, LE, 100);
        break;
    }
    case 4:
    {
        const auto a = r.real(0.0, 0.5), b = r.real(0.5, 1.0);
        param        = parameter_t::make_scalar_pair(name, 0.0, LE, a, LE, b, LE, 1.0);
        break;
    }
    case 5:
    {
        // (lengths around the sizes a reader could buffer or narrow to: the statement says "any parameter")
        static const int64_t lengths[] = {255, 256, 257, 1023, 1024, 1025, 4095, 4096, 4097, 5000, 8191, 8192, 8193};
        string_t s;
        for (int64_t i = 0, n = r.coin(0.25) ? lengths[r.next() % 13] + (r.coin(0.2) ? r.range(0, 300) : 0) : r.range(0, 40); i < n; ++i)
        {
            s += static_cast<char>(r.range(1, 255));
        }
        param = parameter_t::make_string(name, s);
        break;
    }
    default: break; // monostate
    }
    object_t obj;
    obj.kind   = "parameter";
    obj.writer = [param](std::ostream& s) { ::nano::write(s, param); };
    obj.reader = [](std::istream& s, bool& ok)
    {
        parameter_t p;
        ::nano::read(s, p);
        ok = static_cast<bool>(s);
        return ok ? serialize(p) : std::string();
    };
    const auto used_kind = r.next() % 3;
    obj.reader_into_used = [used_kind](std::istream& s, bool& ok)
    {
        auto p = used_kind == 0   ? parameter_t::make_string("used", "some longer value than most")
                 : used_kind == 1 ? parameter_t::make_enum("used", feature_type::uint32)
                                  : parameter_t::make_integer_pair("used", 0, LE, 3, LT, 7, LE, 100);
        ::nano::read(s, p);
        ok = static_cast<bool>(s);
        return ok ? serialize(p) : std::string();
    };
    obj.repr = serialize(param);
    return obj;
}

object_t make_feature(vrng& r)
{
    vf::schema_opts_t o;
    o.min_features = o.max_features = 1;
    o.target_kind      = 0;
    o.all_storage_types = true;
    o.max_classes      = static_cast<int>(r.coin(0.1) ? 300 : 8);
    const auto schema  = vf::random_schema(r, o);
    auto feature = schema.features[0];
    if (r.coin(0.12))
    {
        // long names / labels (a string is a 32-bit length + bytes: block-wise readers have boundaries)
        static const int64_t lengths[] = {256, 1024, 4096, 4097, 6000, 8192, 8193};
        string_t name;
        for (int64_t i = 0, n = lengths[r.next() % 7] + r.range(-1, 1); i < n; ++i)
        {
            name += static_cast<char>('a' + r.range(0, 25));
        }
        if (r.coin())
        {
            feature = feature_t{name}.scalar(feature_type::float32);
        }
        else
        {
            feature = feature_t{"f"}.sclass(strings_t{"a", name, "c" + name});
        }
    }
    object_t   obj;
    obj.kind   = "feature";
    obj.writer = [feature](std::ostream& s) { ::nano::write(s, feature); };
    obj.reader = [](std::istream& s, bool& ok)
    {
        feature_t f;
        ::nano::read(s, f);
        ok = static_cast<bool>(s);
        return ok ? serialize(f) : std::string();
    };
    const auto used_kind = r.next() % 3;
    obj.reader_into_used = [used_kind](std::istream& s, bool& ok)
    {
        auto f = used_kind == 0   ? feature_t{"used"}.sclass(strings_t{"l0", "l1", "l2", "l3", "l4", "l5", "l6", "l7", "l8", "l9", "l10", "l11"})
                 : used_kind == 1 ? feature_t{"used"}.scalar(feature_type::float64, make_dims(3, 2, 2))
                                  : feature_t{"used"}.mclass(strings_t{"a", "b", "c"});
        ::nano::read(s, f);
        ok = static_cast<bool>(s);
        return ok ? serialize(f) : std::string();
    };
    obj.repr = serialize(feature);
    return obj;
}

template <class tobject>
object_t make_factory_object(vrng& r, const char* family)
{
    const auto ids = tobject::all().ids();
    const auto id  = r.pick(ids);
    auto       obj0 = std::shared_ptr<tobject>(tobject::all().get(id).release());
    randomize(*obj0, r);
    object_t obj;
    obj.kind   = std::string(family) + ":" + id;
    obj.writer = [obj0](std::ostream& s)
    {
        // same layout as nano::write(stream, unique_ptr): type id + object
        if (!::nano::write(s, obj0->type_id()) || !::nano::write(s, *obj0))
        {
            s.setstate(std::ios_base::failbit);
        }
    };
    obj.reader = [](std::istream& s, bool& ok)
    {
        std::unique_ptr<tobject> p;
        ::nano::read(s, p);
        ok = static_cast<bool>(s) && p != nullptr;
        return ok ? serialize(p) : std::string();
    };
    {
        simfs::sink_buf buf;
        std::ostream    s(&buf);
        obj.writer(s);
        obj.repr = buf.bytes();
    }
    return obj;
}

// ---------------------------------------------------------------------------------------------
// fitted learners: representation = re-serialized bytes + bit pattern of the predictions on the probe dataset
struct probe_t
{
    std::shared_ptr<vf::sim_datasource_t> source;
    std::shared_ptr<dataset_t>            dataset;
    indices_t                             samples;
};

probe_t make_probe(vrng& r, int target_kind)
{
    vf::schema_opts_t o;
    o.min_features = 2;
    o.max_features = 5;
    o.min_samples  = 12;
    o.max_samples  = 30;
    o.allow_struct = r.coin(0.3);
    o.max_classes  = 3;
    o.target_kind  = target_kind;
    auto schema    = vf::random_schema(r, o);
    probe_t p;
    p.source = std::make_shared<vf::sim_datasource_t>(schema, r.next(), r.coin(0.5) ? 0.0 : 0.15, true, r.coin(0.5) ? 0 : 1);
    p.source->load();
    p.dataset = std::make_shared<dataset_t>(*p.source, 1U);
    vf::add_identity_generators(*p.dataset);
    p.samples = arange(0, p.dataset->samples());
    return p;
}

std::string prediction_bits(const learner_t& learner, const probe_t& probe)
{
    const auto  outputs = learner.predict(*probe.dataset, probe.samples);
    std::string s(reinterpret_cast<const char*>(outputs.data()), static_cast<size_t>(outputs.size()) * sizeof(scalar_t));
    return s;
}

object_t make_wlearner(vrng& r, ctx_t& c)
{
    auto       probe = make_probe(r, 1);
    const auto ids   = wlearner_t::all().ids();
    // find a weak learner that can be fitted on this dataset (tables need categorical features, ...)
    std::shared_ptr<wlearner_t> fitted;
    string_t                    fid;
    for (int attempt_no = 0; attempt_no < 6 && !fitted; ++attempt_no)
    {
        const auto id = r.pick(ids);
        auto       w  = std::shared_ptr<wlearner_t>(wlearner_t::all().get(id).release());
        randomize(*w, r);
        tensor4d_t gradients(cat_dims(probe.dataset->samples(), probe.dataset->target_dims()));
        for (tensor_size_t i = 0; i < gradients.size(); ++i)
        {
            gradients(i) = r.real(-1.0, 1.0);
        }
        const auto score = w->fit(*probe.dataset, probe.samples, gradients);
        if (score < wlearner_t::no_fit_score())
        {
            fitted = w;
            fid    = id;
        }
    }
    if (!fitted)
    {
        c.probe("wlearner_not_fittable");
        return make_factory_object<wlearner_t>(r, "wlearner-unfitted");
    }
    c.probe("wlearner_fitted");
    object_t obj;
    obj.kind   = "wlearner-fitted:" + fid;
    obj.writer = [fitted](std::ostream& s)
    {
        if (!::nano::write(s, fitted->type_id()) || !::nano::write(s, *fitted))
        {
            s.setstate(std::ios_base::failbit);
        }
    };
    obj.reader = [probe](std::istream& s, bool& ok)
    {
        rwlearner_t p;
        ::nano::read(s, p);
        ok = static_cast<bool>(s) && p != nullptr;
        return ok ? serialize(p) + "|" + prediction_bits(*p, probe) : std::string();
    };
    obj.reader_into_used = [probe, fitted](std::istream& s, bool& ok)
    {
        // the same layout read by hand into a copy of the FITTED learner: the stream replaces its state, it does not add to it
        rwlearner_t p = fitted->clone();
        string_t    id;
        ok = static_cast<bool>(::nano::read(s, id)) && id == fitted->type_id();
        if (ok)
        {
            p->read(s);
            ok = static_cast<bool>(s);
        }
        return ok ? serialize(p) + "|" + prediction_bits(*p, probe) : std::string();
    };
    {
        simfs::sink_buf buf;
        std::ostream    s(&buf);
        obj.writer(s);
        obj.repr = buf.bytes() + "|" + prediction_bits(*fitted, probe);
    }
    return obj;
}

object_t make_linear(vrng& r, ctx_t& c)
{
    auto probe = make_probe(r, r.coin(0.7) ? 1 : 2);
    auto model = std::shared_ptr<linear_t>(linear_t::all().get(r.pick(linear_t::all().ids())).release());
    model->parameter("linear::batch") = r.range(10, 40);
    model->parameter("linear::scaling") = r.pick(std::vector<string_t>{"none", "mean", "minmax", "standard"});
    const auto loss = loss_t::all().get(probe.dataset->type() == task_type::regression ? "mse" : "s-classnll");
    auto       params = ml::params_t{};
    auto       solver = solver_t::all().get("lbfgs");
    solver->parameter("solver::max_evals") = 60;
    solver->parameter("solver::epsilon")   = 1e-6;
    params.solver(*solver);
    auto tuner = tuner_t::all().get("local-search");
    tuner->parameter("tuner::max_evals") = 10;
    params.tuner(*tuner);
    auto splitter = splitter_t::all().get("k-fold");
    splitter->parameter("splitter::folds") = 2;
    params.splitter(*splitter);
    model->fit(*probe.dataset, probe.samples, *loss, params);
    c.probe("linear_fitted");
    object_t obj;
    obj.kind   = "linear-fitted:" + model->type_id();
    obj.writer = [model](std::ostream& s)
    {
        if (!::nano::write(s, model->type_id()) || !::nano::write(s, *model))
        {
            s.setstate(std::ios_base::failbit);
        }
    };
    obj.reader = [probe](std::istream& s, bool& ok)
    {
        rlinear_t p;
        ::nano::read(s, p);
        ok = static_cast<bool>(s) && p != nullptr;
        return ok ? serialize(p) + "|" + prediction_bits(*p, probe) : std::string();
    };
    obj.reader_into_used = [probe, model](std::istream& s, bool& ok)
    {
        rlinear_t p = model->clone();
        string_t  id;
        ok = static_cast<bool>(::nano::read(s, id)) && id == model->type_id();
        if (ok)
        {
            p->read(s);
            ok = static_cast<bool>(s);
        }
        return ok ? serialize(p) + "|" + prediction_bits(*p, probe) : std::string();
    };
    {
        simfs::sink_buf buf;
        std::ostream    s(&buf);
        obj.writer(s);
        obj.repr = buf.bytes() + "|" + prediction_bits(*model, probe);
    }
    return obj;
}

object_t make_gboost(vrng& r, ctx_t& c)
{
    auto probe = make_probe(r, 1);
    auto model = std::make_shared<gboost_model_t>();
    model->parameter("gboost::max_rounds") = r.range(10, 14);
    model->parameter("gboost::patience")   = r.range(1, 3);
    model->parameter("gboost::batch")      = r.range(10, 40);
    model->parameter("gboost::epsilon")    = 1e-6;
    rwlearners_t protos;
    for (const auto& id : wlearner_t::all().ids())
    {
        if (r.coin(0.5) || protos.empty())
        {
            protos.emplace_back(wlearner_t::all().get(id));
            randomize(*protos.back(), r);
        }
    }
    model->prototypes(std::move(protos));
    const auto loss   = loss_t::all().get("mse");
    auto       params = ml::params_t{};
    auto       solver = solver_t::all().get("lbfgs");
    solver->parameter("solver::max_evals") = 40;
    solver->parameter("solver::epsilon")   = 1e-6;
    params.solver(*solver);
    auto splitter = splitter_t::all().get("k-fold");
    splitter->parameter("splitter::folds") = 2;
    params.splitter(*splitter);
    model->fit(*probe.dataset, probe.samples, *loss, params);
    c.probe("gboost_fitted");
    if (!model->wlearners().empty())
    {
        c.probe("gboost_with_weak_learners");
    }
    object_t obj;
    obj.kind   = "gboost-fitted";
    obj.writer = [model](std::ostream& s) { ::nano::write(s, *model); };
    obj.reader = [probe](std::istream& s, bool& ok)
    {
        gboost_model_t m;
        ::nano::read(s, m);
        ok = static_cast<bool>(s);
        return ok ? serialize(m) + "|" + prediction_bits(m, probe) : std::string();
    };
    obj.reader_into_used = [probe, model](std::istream& s, bool& ok)
    {
        gboost_model_t m = *model; // a fitted model: the stream replaces its weak learners, it does not append to them
        ::nano::read(s, m);
        ok = static_cast<bool>(s);
        return ok ? serialize(m) + "|" + prediction_bits(m, probe) : std::string();
    };
    obj.repr = serialize(*model) + "|" + prediction_bits(*model, probe);
    return obj;
}

// ---------------------------------------------------------------------------------------------
// independent re-implementation of the content hash (include/nano/core/hash.h) to confirm located payloads
uint64_t ref_hash(const std::string& bytes, size_t offset, size_t length, size_t sz, bool sign_extend)
{
    uint64_t h = 0;
    for (size_t i = 0; i + sz <= length; i += sz)
    {
        uint64_t v = 0;
        memcpy(&v, bytes.data() + offset + i, sz);
        if (sign_extend && sz < 8 && ((v >> (8 * sz - 1)) & 1U) != 0U)
        {
            v |= ~uint64_t(0) << (8 * sz);
        }
        h = h ^ (v + 0x9e3779b9 + (h << 6) + (h >> 2));
    }
    return h;
}

uint32_t u32_at(const std::string& b, size_t off)
{
    uint32_t v = 0;
    memcpy(&v, b.data() + off, 4);
    return v;
}

struct region_t
{
    size_t   offset, length;
    bool     hash_confirmed;
    size_t   sz{1};             // sizeof(scalar) of the tensor
    bool     sign_extend{false}; // which variant of the reference hash reproduced the stored hash
    uint64_t stored{0};          // the stored content hash
};

struct layout_t
{
    std::vector<region_t>                  payloads;
    std::vector<std::pair<size_t, size_t>> headers; // (offset, length) of tensor header fields: version, rank, sizeof, hash
    std::vector<std::pair<size_t, size_t>> dims;    // (offset, length) of tensor dimension fields (flips kept small)
};

layout_t parse_layout(const object_t& obj)
{
    layout_t    lay;
    const auto& calls = obj.calls;
    const auto& b     = obj.bytes;
    for (size_t j = 2; j < calls.size(); ++j)
    {
        // tensor: [4 version=0][4 rank][4 x rank dims][4 sizeof][8 hash][payload]
        if (calls[j - 1].length != 8 || calls[j - 2].length != 4)
        {
            continue;
        }
        const auto sz = u32_at(b, calls[j - 2].offset);
        if (sz != 1 && sz != 2 && sz != 4 && sz != 8)
        {
            continue;
        }
        for (size_t rank = 1; rank <= 5 && j >= rank + 4; ++rank)
        {
            const auto ir = j - 3 - rank; // index of the rank field
            if (calls[ir].length != 4 || calls[ir - 1].length != 4 || u32_at(b, calls[ir].offset) != rank || u32_at(b, calls[ir - 1].offset) != 0U)
            {
                continue;
            }
            uint64_t total = 1;
            bool     okd   = true;
            for (size_t d = 0; d < rank; ++d)
            {
                okd = okd && calls[ir + 1 + d].length == 4;
                total *= u32_at(b, calls[ir + 1 + d].offset);
            }
            if (!okd || total * sz != calls[j].length)
            {
                continue;
            }
            uint64_t stored = 0;
            memcpy(&stored, b.data() + calls[j - 1].offset, 8);
            const bool plain_ok  = stored == ref_hash(b, calls[j].offset, calls[j].length, sz, false);
            const bool signed_ok = stored == ref_hash(b, calls[j].offset, calls[j].length, sz, true);
            const bool confirmed = plain_ok || signed_ok;
            lay.payloads.push_back(region_t{calls[j].offset, calls[j].length, confirmed, sz, !plain_ok && signed_ok, stored});
            lay.headers.emplace_back(calls[ir - 1].offset, 4); // version
            lay.headers.emplace_back(calls[ir].offset, 4);     // rank
            lay.headers.emplace_back(calls[j - 2].offset, 4);  // sizeof(scalar)
            lay.headers.emplace_back(calls[j - 1].offset, 8);  // hash(content)
            for (size_t d = 0; d < rank; ++d)
            {
                lay.dims.emplace_back(calls[ir + 1 + d].offset, 4);
            }
            break;
        }
    }
    return lay;
}

const char* outcome_name(outcome o)
{
    return o == outcome::success ? "success" : o == outcome::failed_stream ? "failed-stream" : "exception";
}

void body(ctx_t& c)
{
    auto& r = c.wl;

    const auto thorough = c.knob("thorough", 0) != 0;
    const auto kind     = c.knob("kind", r.range(0, 99));
    object_t   obj;
    if (kind < 30)
    {
        obj = make_tensor(r);
    }
    else if (kind < 38)
    {
        obj = make_parameter(r);
    }
    else if (kind < 46)
    {
        obj = make_feature(r);
    }
    else if (kind < 52)
    {
        obj = make_factory_object<solver_t>(r, "solver");
    }
    else if (kind < 56)
    {
        obj = make_factory_object<loss_t>(r, "loss");
    }
    else if (kind < 59)
    {
        obj = make_factory_object<splitter_t>(r, "splitter");
    }
    else if (kind < 62)
    {
        obj = make_factory_object<tuner_t>(r, "tuner");
    }
    else if (kind < 64)
    {
        obj = make_factory_object<lsearch0_t>(r, "lsearch0");
    }
    else if (kind < 67)
    {
        obj = make_factory_object<lsearchk_t>(r, "lsearchk");
    }
    else if (kind < 70)
    {
        obj = make_factory_object<wlearner_t>(r, "wlearner-unfitted");
    }
    else if (kind < 84)
    {
        obj = make_wlearner(r, c);
    }
    else if (kind < 92)
    {
        obj = make_linear(r, c);
    }
    else
    {
        obj = make_gboost(r, c);
    }

    // write through the simulated storage (unbuffered, call log)
    {
        simfs::sink_buf buf;
        std::ostream    stream(&buf);
        obj.writer(stream);
        if (!stream)
        {
            c.fail("write-failed", obj.kind + ": writing to an unlimited sink failed");
        }
        obj.bytes = buf.bytes();
        obj.calls = buf.calls();
    }
    const auto len = obj.bytes.size();
    c.sample       = obj.kind + " bytes=" + std::to_string(len) + " write_calls=" + std::to_string(obj.calls.size());
    c.probe("objects");
    c.probe("kind_" + obj.kind.substr(0, obj.kind.find(':')));
    int64_t reads = 0;

    // (1) round trip, several reader chunkings
    for (int k = 0; k < 3 && !c.failed(); ++k)
    {
        const auto a = attempt(obj, obj.bytes, len, false, r.next());
        ++reads;
        if (a.result != outcome::success)
        {
            c.fail("roundtrip-rejected", obj.kind + ": a complete valid stream was not accepted (" + outcome_name(a.result) + " " + a.what + ")");
        }
        else if (a.repr != obj.repr)
        {
            c.fail("roundtrip-differs", obj.kind + ": the object read back is not observationally identical (parameters or predictions differ)");
        }
    }

    if (obj.reader_into_used && !c.failed())
    {
        auto used   = obj;
        used.reader = obj.reader_into_used;
        const auto a = attempt(used, obj.bytes, len, false, r.next());
        ++reads;
        if (a.result != outcome::success)
        {
            c.fail("roundtrip-rejected", obj.kind + ": a complete valid stream was not accepted by an object that already held other state (" +
                                             outcome_name(a.result) + " " + a.what + ")");
        }
        else if (a.repr != obj.repr)
        {
            c.fail("roundtrip-differs", obj.kind + ": read into an object that already held other state, the result is not observationally identical");
        }
        c.probe("roundtrip_into_used_object");
    }

    // (2) every truncation offset: clean EOF and I/O error
    for (size_t k = 0; k < len && !c.failed(); ++k)
    {
        for (const bool error : {false, true})
        {
            const auto a = attempt(obj, obj.bytes, k, error, r.next());
            ++reads;
            if (a.result == outcome::success)
            {
                c.fail("truncation-accepted", obj.kind + ": strict prefix of " + std::to_string(k) + "/" + std::to_string(len) +
                                                  " bytes ending in " + (error ? "an I/O error" : "EOF") + " was read successfully");
                break;
            }
            c.fire(error ? "truncated_read_io_error" : "truncated_read_eof");
            c.probe(a.result == outcome::exception ? "rejected_by_exception" : "rejected_by_stream_state");
        }
    }
    c.probe("truncation_offsets_enumerated", static_cast<int64_t>(len));

    // (3) torn writes: the disk fills up at a PRNG offset, the unflushed tail is lost, the process restarts
    for (int k = 0, n = thorough ? 12 : 4; k < n && len > 0 && !c.failed(); ++k)
    {
        const auto      capacity = static_cast<size_t>(r.range(0, static_cast<int64_t>(len) - 1));
        simfs::sink_buf buf(capacity);
        std::ostream    stream(&buf);
        bool            writer_noticed = false;
        try
        {
            obj.writer(stream);
            writer_noticed = !stream;
        }
        catch (const std::exception&)
        {
            writer_noticed = true;
        }
        c.fire("torn_write");
        if (writer_noticed)
        {
            c.probe("writer_reported_disk_full");
        }
        const auto lost    = static_cast<size_t>(r.range(0, std::min<int64_t>(static_cast<int64_t>(buf.bytes().size()), 64)));
        const auto durable = buf.bytes().substr(0, buf.bytes().size() - lost);
        if (obj.bytes.compare(0, durable.size(), durable) != 0)
        {
            c.fail("torn-write-not-prefix", obj.kind + ": the bytes accepted before the fault are not a prefix of the complete stream");
            break;
        }
        const auto a = attempt(obj, durable, durable.size(), false, r.next());
        ++reads;
        if (a.result == outcome::success)
        {
            c.fail("truncation-accepted", obj.kind + ": durable image of a torn write (" + std::to_string(durable.size()) + "/" +
                                              std::to_string(len) + " bytes) was read successfully after restart");
        }
    }

    // (4) corruption
    const auto lay = parse_layout(obj);
    for (const auto& region : lay.payloads)
    {
        c.probe("tensor_payload_regions");
        c.probe(region.hash_confirmed ? "payload_hash_confirmed_independently" : "payload_hash_not_confirmed");
        const size_t step = thorough ? 1 : std::max<size_t>(1, region.length / 200);
        for (size_t off = 0; off < region.length && !c.failed(); off += step)
        {
            const int nmasks = thorough ? 8 : 1;
            for (int m = 0; m < nmasks; ++m)
            {
                // quick tier: half of the masks are single-bit flips (the sign bit of a +-0.0 is one bit of one byte)
                const auto mask = thorough ? static_cast<uint8_t>(1U << m)
                                           : (r.coin(0.5) ? static_cast<uint8_t>(1U << (r.next() % 8)) : static_cast<uint8_t>(1 + r.next() % 255));
                const auto a    = attempt(obj, obj.bytes, len, false, r.next(), {simfs::flip{region.offset + off, mask}});
                ++reads;
                c.fire("payload_byte_flip");
                if (a.result == outcome::success)
                {
                    // is it the content hash ITSELF that does not see the change (the shipped hash function, re-implemented
                    // above, gives the stored value for the altered payload as well), or was the change not checked?
                    bool collision = false;
                    if (region.hash_confirmed)
                    {
                        auto altered = obj.bytes;
                        altered[region.offset + off] = static_cast<char>(static_cast<uint8_t>(altered[region.offset + off]) ^ mask);
                        collision = ref_hash(altered, region.offset, region.length, region.sz, region.sign_extend) == region.stored;
                    }
                    c.fail(collision ? "corruption-accepted-hash-collision" : "corruption-accepted",
                           obj.kind + ": tensor payload byte at offset " + std::to_string(region.offset + off) + " xor " + std::to_string(mask) +
                               " was read successfully" + (a.repr == obj.repr ? " (as the ORIGINAL object)" : " (as a DIFFERENT object)") +
                               (collision ? " - the content hash of the altered payload EQUALS the stored one (element size " + std::to_string(region.sz) + ", " +
                                                std::to_string(region.length / region.sz) + " elements, element " + std::to_string(off / region.sz) + ")"
                                          : std::string()));
                    break;
                }
            }
        }
    }
    // tensor header bytes (version, rank, dimensions, sizeof, stored hash): the statement demands rejection only for payload
    // bytes, so the outcome is recorded but only "no crash / no out-of-bounds access" is required. Dimension fields are
    // flipped in their low bits only (a flipped high bit asks for gigabytes, which is an input-size question, not this one).
    // Bytes outside tensors are NOT corrupted: one flipped type tag desynchronises the parse and lets arbitrary bytes act
    // as a 32-bit string length (4 GB resize followed by 4e9 failing reads) - slow, but not what the property is about.
    {
        const auto flip_one = [&](size_t off, uint8_t mask)
        {
            const auto a = attempt(obj, obj.bytes, len, false, r.next(), {simfs::flip{off, mask}});
            ++reads;
            c.fire("tensor_header_byte_flip");
            c.probe(a.result == outcome::success ? (a.repr == obj.repr ? "header_flip_read_as_same_object" : "header_flip_read_as_other_object")
                                                 : "header_flip_rejected");
        };
        for (const auto& [off, n] : lay.headers)
        {
            for (size_t i = 0; i < n && !c.failed(); ++i)
            {
                flip_one(off + i, static_cast<uint8_t>(1 + r.next() % 255));
            }
        }
        for (const auto& [off, n] : lay.dims)
        {
            (void)n;
            flip_one(off, static_cast<uint8_t>(1U << (r.next() % 3)));
        }
    }
    c.probe("reads", reads);
    c.dig(vf::mix(static_cast<uint64_t>(len), static_cast<uint64_t>(reads)));
    c.dig(std::hash<std::string>{}(obj.bytes));
    c.case_hash       = vf::mix(std::hash<std::string>{}(obj.bytes), std::hash<std::string>{}(obj.kind));
    c.case_nontrivial = len >= 8;
    c.case_evaluations = reads;
}

void run(ctx_t& c)
{
    // everything inline and replayable: one simulated core, entropy and clocks from the seed
    c.overrides["cores"]      = 1;
    c.overrides["sim_faults"] = 0;
    c.begin_sim(1);
    // every object created inside the simulation (datasets own a pool thread) must also die inside it
    body(c);
    c.end_sim();
}
} // namespace

int main(int argc, char** argv)
{
    return vf::worker_main(argc, argv, "C15", run,
                           []
                           {
                               vf::warm_factories();
                           });
}
