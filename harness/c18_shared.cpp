// C18 - shared const objects are thread-safe with schedule-independent results.
// Scenarios (knob "scenario"):
//  0 one shared solver instance, 2-8 simulated threads minimise their own functions (do_vgrad yields to the scheduler)
//  1 one shared loss instance, value/vgrad/error on shared tensors
//  2 one shared dataset: direct flatten/select/targets with per-thread buffers + per-thread iterators through the dataset pool
//  3 one shared fitted model (linear / gboost): concurrent predict and evaluate
//  4 complete fit() under a simulated schedule and core count vs the same fit on one core
// Oracles: bit-identity with the same call executed alone (0-3), agreement up to re-association (4), no deadlock state, and -
// in the TSan build - no data-race report inside the serialised, replayable execution.
#include "mldata.h"

#include <nano/function.h>
#include <nano/gboost/model.h>
#include <nano/linear.h>
#include <nano/loss.h>
#include <nano/solver.h>
#include <nano/wlearner.h>
#include <nano/gboost/result.h>
#include <nano/wlearner/single.h>
#include <nano/wlearner/dtree.h>

#include <array>
#include <thread>

using namespace nano;
using vf::ctx_t;
using vrng = vf::rng_t;

namespace
{
// ---------------------------------------------------------------------------------------------
// harness functions: every evaluation is a schedule point, so concurrent minimisations interleave at every evaluation
class yfunction_t final : public function_t
{
public:
    using ematrix_t = Eigen::Matrix<scalar_t, Eigen::Dynamic, Eigen::Dynamic>;
    using evector_t = Eigen::Matrix<scalar_t, Eigen::Dynamic, 1>;

    yfunction_t(int kind, tensor_size_t dims, uint64_t seed)
        : function_t("yfunction", dims)
        , m_kind(kind)
        , m_A(dims, dims)
        , m_b(dims)
    {
        vrng r(seed);
        // A = M'M + I (SPD), b random
        ematrix_t M(dims, dims);
        for (tensor_size_t i = 0; i < dims; ++i)
        {
            for (tensor_size_t j = 0; j < dims; ++j)
            {
                M(i, j) = r.real(-1.0, 1.0);
            }
            m_b(i) = r.real(-2.0, 2.0);
        }
        m_A = M.transpose() * M + ematrix_t::Identity(dims, dims);
        convex(kind == 2 ? convexity::no : convexity::yes);
        smooth(kind == 1 ? smoothness::no : smoothness::yes);
    }

    rfunction_t clone() const override { return std::make_unique<yfunction_t>(*this); }

    scalar_t do_vgrad(vector_cmap_t xt, vector_map_t gxt) const override
    {
        simrt_yield("vgrad");
        const auto x    = xt.vector();
        const bool grad = gxt.size() == xt.size();
        switch (m_kind)
        {
        case 0: // strongly convex quadratic
            if (grad)
            {
                gxt.vector() = m_A * x - m_b;
            }
            return 0.5 * x.dot(m_A * x) - m_b.dot(x);
        case 1: // piecewise linear + small quadratic (convex, non-smooth)
        {
            const evector_t r = m_A * x - m_b;
            if (grad)
            {
                gxt.vector() = m_A.transpose() * r.array().sign().matrix() + 0.1 * x;
            }
            return r.array().abs().sum() + 0.05 * x.dot(x);
        }
        default: // Rosenbrock-like (smooth, non-convex)
        {
            scalar_t fx = 0.0;
            if (grad)
            {
                gxt.vector().setZero();
            }
            for (tensor_size_t i = 0; i + 1 < x.size(); ++i)
            {
                const auto a = x(i + 1) - x(i) * x(i), b = 1.0 - x(i);
                fx += 10.0 * a * a + b * b;
                if (grad)
                {
                    gxt(i) += -40.0 * a * x(i) - 2.0 * b;
                    gxt(i + 1) += 20.0 * a;
                }
            }
            return fx;
        }
        }
    }

private:
    int       m_kind;
    ematrix_t m_A;
    evector_t m_b;
};

struct min_result_t
{
    vector_t      x, gx;
    scalar_t      fx{0};
    int           status{0};
    tensor_size_t fcalls{0}, gcalls{0};
    bool          threw{false};
};

min_result_t minimize(const solver_t& solver, int kind, tensor_size_t dims, uint64_t fseed, const vector_t& x0, const string_t& lib = string_t())
{
    min_result_t     r;
    const yfunction_t yfunction(kind, dims, fseed);
    try
    {
        // "each with its own function object": either the harness' yielding function or this thread's own instance of one of the
        // library's benchmark functions (several threads inside the SAME function type at once: seeded change C18-maxquad-static-scratch)
        rfunction_t libfunction;
        vector_t    libx0;
        if (!lib.empty())
        {
            libfunction = function_t::all().get(lib)->make(dims, 8);
            if (libfunction)
            {
                libx0 = vector_t(libfunction->size());
                vf::rng_t xr(fseed);
                for (tensor_size_t i = 0; i < libx0.size(); ++i)
                {
                    libx0(i) = xr.real(-1.0, 1.0);
                }
            }
        }
        const function_t& function = libfunction ? *libfunction : static_cast<const function_t&>(yfunction);
        const auto state = solver.minimize(function, libfunction ? libx0 : x0, make_null_logger());
        r.x      = state.x();
        r.gx     = state.gx();
        r.fx     = state.fx();
        r.status = static_cast<int>(state.status());
        r.fcalls = state.fcalls();
        r.gcalls = state.gcalls();
    }
    catch (const std::exception&)
    {
        r.threw = true;
    }
    return r;
}

bool same(const min_result_t& a, const min_result_t& b)
{
    return a.threw == b.threw && vf::bits(a.fx) == vf::bits(b.fx) && a.status == b.status && a.fcalls == b.fcalls && a.gcalls == b.gcalls &&
           vf::bit_identical(a.x, b.x) && vf::bit_identical(a.gx, b.gx);
}

void scenario_solver(ctx_t& c)
{
    auto&      r   = c.wl;
    strings_t  ids;
    for (const auto& id : solver_t::all().ids())
    {
        // the gradient-sampling solvers draw entropy by design: outside "deterministic solver types"
        if (id != "gs" && id != "ags" && id != "gs-lbfgs" && id != "ags-lbfgs")
        {
            ids.push_back(id);
        }
    }
    const auto id       = ids[static_cast<size_t>(c.knob("solver", r.range(0, static_cast<int64_t>(ids.size()) - 1)))];
    const auto nthreads = c.knob("threads", r.coin(0.7) ? r.range(2, 4) : r.range(2, 8));
    auto       solver   = solver_t::all().get(id);
    solver->parameter("solver::max_evals") = r.range(20, 120);
    solver->parameter("solver::epsilon")   = std::pow(10.0, static_cast<double>(-r.range(4, 9)));
    if (solver->type() == solver_type::line_search && r.coin(0.6))
    {
        solver->lsearch0(r.pick(lsearch0_t::all().ids()));
        solver->lsearchk(r.pick(lsearchk_t::all().ids()));
    }
    if (r.coin(0.5))
    {
        // parameters changed on the configured instance, as a user would before sharing it
        const auto c1 = std::pow(10.0, r.real(-5.0, -1.0));
        solver->parameter("solver::tolerance") = std::make_tuple(c1, r.real(std::min(0.9, 2.0 * c1), 0.95));
    }
    struct job_t
    {
        int           kind;
        tensor_size_t dims;
        uint64_t      fseed;
        vector_t      x0;
        string_t      lib; // non-empty: the thread's own instance of this library benchmark function
    };
    std::vector<job_t> jobs;
    const auto         lib_ids  = function_t::all().ids();
    const bool         use_lib  = !lib_ids.empty() && r.coin(0.5);
    // with library functions every thread minimises a SEQUENCE of functions, the same types in the same order on all threads
    // (so that several threads are inside one function type's code at once, for several types per run)
    const auto         rounds   = use_lib ? r.range(2, 5) : int64_t{1};
    strings_t          lib_round;
    for (int64_t k = 0; k < rounds && use_lib; ++k)
    {
        lib_round.push_back(r.pick(lib_ids));
    }
    const auto         lib_main = use_lib ? lib_round[0] : string_t();
    if (use_lib)
    {
        c.probe("shared_solver_library_functions");
    }
    for (int64_t t = 0; t < nthreads * rounds; ++t)
    {
        job_t j;
        j.kind  = static_cast<int>(r.range(0, 2));
        j.dims  = r.range(2, 6);
        j.fseed = r.next();
        j.x0    = vector_t(j.dims);
        for (tensor_size_t i = 0; i < j.dims; ++i)
        {
            j.x0(i) = r.real(-2.0, 2.0);
        }
        if (use_lib)
        {
            j.lib = r.coin(0.8) ? lib_round[static_cast<size_t>(t % rounds)] : r.pick(lib_ids);
        }
        jobs.push_back(j);
    }
    c.sample = "shared solver " + id + (use_lib ? " library function " + lib_main : string_t()) + " lsearch0=" + solver->lsearch0().type_id() + " lsearchk=" + solver->lsearchk().type_id() +
               " threads=" + std::to_string(nthreads);

    // alone: before or after the concurrent calls ("the same call executed alone" - a first serial call must not be needed
    // to make the instance safe to share)
    std::vector<min_result_t> solo, conc(jobs.size());
    const bool                solo_first = r.coin();
    const auto                run_solo   = [&]
    {
        for (const auto& j : jobs)
        {
            solo.push_back(minimize(*solver, j.kind, j.dims, j.fseed, j.x0, j.lib));
        }
    };
    if (solo_first)
    {
        run_solo();
    }
    // concurrently on the one shared instance
    {
        std::vector<std::thread> threads;
        const solver_t&          shared = *solver;
        for (size_t t = 0; t < static_cast<size_t>(nthreads); ++t)
        {
            threads.emplace_back(
                [&, t]
                {
                    for (size_t k = t * static_cast<size_t>(rounds); k < (t + 1) * static_cast<size_t>(rounds); ++k)
                    {
                        conc[k] = minimize(shared, jobs[k].kind, jobs[k].dims, jobs[k].fseed, jobs[k].x0, jobs[k].lib);
                    }
                });
        }
        for (auto& t : threads)
        {
            t.join();
        }
    }
    if (!solo_first)
    {
        run_solo();
        c.probe("solver_shared_before_any_serial_call");
    }
    for (size_t t = 0; t < jobs.size(); ++t)
    {
        if (!same(solo[t], conc[t]))
        {
            c.fail("solver-result-differs", "solver " + id + ": minimisation " + std::to_string(t) + " on the shared instance differs from the same call alone (fx " +
                                                std::to_string(solo[t].fx) + " vs " + std::to_string(conc[t].fx) + ", calls " + std::to_string(solo[t].fcalls) + " vs " +
                                                std::to_string(conc[t].fcalls) + ")");
            break;
        }
        c.dig(solo[t].fx);
    }
    c.probe("solver_runs");
    c.probe("solver_" + std::string(solver->type() == solver_type::line_search ? "line_search" : "other"));
}

// ---------------------------------------------------------------------------------------------
void scenario_loss(ctx_t& c)
{
    auto&      r        = c.wl;
    const auto ids      = loss_t::all().ids();
    const auto id       = ids[static_cast<size_t>(c.knob("loss", r.range(0, static_cast<int64_t>(ids.size()) - 1)))];
    const auto loss     = loss_t::all().get(id);
    const auto nthreads = c.knob("threads", r.range(2, 8));
    const auto samples  = r.range(1, 20);
    const auto outputs_n = r.range(1, 5);
    tensor4d_t targets(samples, outputs_n, 1, 1), outputs(samples, outputs_n, 1, 1);
    for (tensor_size_t s = 0; s < samples; ++s)
    {
        const auto hot = r.range(0, outputs_n - 1);
        for (tensor_size_t o = 0; o < outputs_n; ++o)
        {
            // class-style targets (+1 / -1) work for every loss; regression losses take them as numbers
            targets(s, o, 0, 0) = (id.rfind("m-", 0) == 0) ? (r.coin(0.4) ? 1.0 : -1.0) : (o == hot ? 1.0 : -1.0);
            outputs(s, o, 0, 0) = r.real(-3.0, 3.0);
        }
    }
    c.sample = "shared loss " + id + " threads=" + std::to_string(nthreads) + " samples=" + std::to_string(samples) + "x" + std::to_string(outputs_n);
    struct out_t
    {
        tensor1d_t values, errors;
        tensor4d_t vgrads;
        bool       threw{false};
    };
    const loss_t& shared = *loss;
    const auto    call   = [&](out_t& o, bool yields)
    {
        try
        {
            for (int rep = 0; rep < 2; ++rep)
            {
                shared.value(targets, outputs, o.values);
                if (yields)
                {
                    simrt_yield("loss");
                }
                shared.vgrad(targets, outputs, o.vgrads);
                if (yields)
                {
                    simrt_yield("loss");
                }
                shared.error(targets, outputs, o.errors);
            }
        }
        catch (const std::exception&)
        {
            o.threw = true;
        }
    };
    out_t      solo;
    const bool solo_first = r.coin(); // (the call alone comes before or after the concurrent ones)
    if (solo_first)
    {
        call(solo, false);
    }
    std::vector<out_t> conc(static_cast<size_t>(nthreads));
    {
        std::vector<std::thread> threads;
        for (int64_t t = 0; t < nthreads; ++t)
        {
            threads.emplace_back([&, t] { call(conc[static_cast<size_t>(t)], true); });
        }
        for (auto& t : threads)
        {
            t.join();
        }
    }
    if (!solo_first)
    {
        call(solo, false);
    }
    for (const auto& o : conc)
    {
        if (o.threw != solo.threw || (!o.threw && (!vf::bit_identical(o.values, solo.values) || !vf::bit_identical(o.errors, solo.errors) ||
                                                    !vf::bit_identical(o.vgrads, solo.vgrads))))
        {
            c.fail("loss-result-differs", "loss " + id + ": concurrent value/vgrad/error differ from the same calls alone");
            break;
        }
    }
    c.dig(vf::tensor_digest(solo.values));
    c.probe("loss_runs");
}

// ---------------------------------------------------------------------------------------------
struct data_t
{
    std::unique_ptr<vf::sim_datasource_t> source;
    std::unique_ptr<dataset_t>            dataset;
};

data_t make_data(vrng& r, int target_kind, int64_t pool, int min_samples, int max_samples, bool structs, double missing, double target_scale = 1.0,
                 bool extreme_magnitudes = false, uint64_t target_noise = 0, double noise_amplitude = 1e-13)
{
    vf::schema_opts_t o;
    o.min_features = 2;
    o.max_features = 6;
    o.min_samples  = min_samples;
    o.max_samples  = max_samples;
    o.allow_struct = structs;
    o.max_classes  = 4;
    o.target_kind  = target_kind;
    data_t d;
    d.source = std::make_unique<vf::sim_datasource_t>(vf::random_schema(r, o), r.next(), missing, true, extreme_magnitudes ? 10 : 0);
    d.source->target_scale(target_scale);
    d.source->target_noise(target_noise, noise_amplitude);
    d.source->load();
    d.dataset = std::make_unique<dataset_t>(*d.source, static_cast<size_t>(pool));
    vf::add_identity_generators(*d.dataset);
    return d;
}

indices_t random_samples(vrng& r, tensor_size_t total, bool allow_repeats)
{
    const auto n = r.range(1, std::max<int64_t>(1, total));
    indices_t  s(n);
    for (tensor_size_t i = 0; i < n; ++i)
    {
        s(i) = r.range(0, total - 1);
    }
    if (!allow_repeats)
    {
        std::sort(std::begin(s), std::end(s));
        const auto e = std::unique(std::begin(s), std::end(s));
        indices_t  u(static_cast<tensor_size_t>(e - std::begin(s)));
        std::copy(std::begin(s), e, std::begin(u));
        return u;
    }
    return s;
}

struct view_t
{
    uint64_t flatten{0}, targets{0}, select{0}, iter_flatten{0}, iter_targets{0};
    bool     threw{false};
};

view_t dataset_views(const dataset_t& dataset, const indices_t& samples, tensor_size_t batch, bool yields)
{
    view_t v;
    try
    {
        tensor2d_t fbuf;
        tensor4d_t tbuf;
        v.flatten = vf::tensor_digest(dataset.flatten(samples, fbuf));
        if (yields)
        {
            simrt_yield("view");
        }
        if (dataset.target().valid())
        {
            v.targets = vf::tensor_digest(dataset.targets(samples, tbuf));
        }
        uint64_t h = 0;
        for (tensor_size_t f = 0; f < dataset.features(); ++f)
        {
            const auto feature = dataset.feature(f);
            if (feature.is_sclass())
            {
                sclass_mem_t b;
                h = vf::mix(h, vf::tensor_digest(dataset.select(samples, f, b)));
            }
            else if (feature.is_mclass())
            {
                mclass_mem_t b;
                h = vf::mix(h, vf::tensor_digest(dataset.select(samples, f, b)));
            }
            else if (feature.is_scalar())
            {
                scalar_mem_t b;
                h = vf::mix(h, vf::tensor_digest(dataset.select(samples, f, b)));
            }
            else
            {
                struct_mem_t b;
                h = vf::mix(h, vf::tensor_digest(dataset.select(samples, f, b)));
            }
            if (yields && f % 2 == 0)
            {
                simrt_yield("view");
            }
        }
        v.select = h;
        // the thread's own iterator, looping through the SHARED dataset pool: per-range digests combined by position
        {
            auto iterator = flatten_iterator_t{dataset, samples};
            iterator.batch(batch);
            iterator.scaling(scaling_type::none);
            std::vector<uint64_t> fd(static_cast<size_t>(samples.size()), 0), td(static_cast<size_t>(samples.size()), 0);
            if (dataset.target().valid())
            {
                iterator.loop(
                    [&](tensor_range_t range, size_t, tensor2d_cmap_t inputs, tensor4d_cmap_t targets)
                    {
                        if (yields)
                        {
                            simrt_yield("iter-callback");
                        }
                        fd[static_cast<size_t>(range.begin())] = vf::mix(static_cast<uint64_t>(range.size()), vf::tensor_digest(inputs));
                        td[static_cast<size_t>(range.begin())] = vf::mix(static_cast<uint64_t>(range.size()), vf::tensor_digest(targets));
                    });
            }
            else
            {
                iterator.loop(
                    [&](tensor_range_t range, size_t, tensor2d_cmap_t inputs)
                    {
                        if (yields)
                        {
                            simrt_yield("iter-callback");
                        }
                        fd[static_cast<size_t>(range.begin())] = vf::mix(static_cast<uint64_t>(range.size()), vf::tensor_digest(inputs));
                    });
            }
            for (size_t i = 0; i < fd.size(); ++i)
            {
                v.iter_flatten = vf::mix(v.iter_flatten, fd[i]);
                v.iter_targets = vf::mix(v.iter_targets, td[i]);
            }
        }
    }
    catch (const std::exception&)
    {
        v.threw = true;
    }
    return v;
}

void scenario_dataset(ctx_t& c)
{
    auto&      r        = c.wl;
    const auto nthreads = c.knob("threads", r.coin(0.7) ? r.range(2, 4) : r.range(2, 8));
    const auto pool     = c.knob("pool", r.range(1, 16));
    const bool extreme  = r.coin(0.3);
    auto       d        = make_data(r, static_cast<int>(r.range(0, 4)), pool, 4, 60, true, r.coin(0.5) ? 0.0 : 0.2, 1.0, extreme);
    const auto batch    = r.range(1, 20);
    std::vector<indices_t> lists;
    for (int64_t t = 0; t < nthreads; ++t)
    {
        lists.push_back(random_samples(r, d.dataset->samples(), true));
    }
    c.sample = "shared dataset samples=" + std::to_string(d.dataset->samples()) + " features=" + std::to_string(d.dataset->features()) +
               " columns=" + std::to_string(d.dataset->columns()) + " pool=" + std::to_string(d.dataset->concurrency()) + " threads=" +
               std::to_string(nthreads) + " batch=" + std::to_string(batch);
    std::vector<view_t> solo, conc(lists.size());
    const bool          solo_first = r.coin(); // (the calls alone come before or after the concurrent ones)
    const auto          run_solo   = [&]
    {
        for (const auto& l : lists)
        {
            solo.push_back(dataset_views(*d.dataset, l, batch, false));
        }
    };
    if (solo_first)
    {
        run_solo();
    }
    {
        std::vector<std::thread> threads;
        const dataset_t&         shared = *d.dataset;
        for (size_t t = 0; t < lists.size(); ++t)
        {
            threads.emplace_back([&, t] { conc[t] = dataset_views(shared, lists[t], batch, true); });
        }
        for (auto& t : threads)
        {
            t.join();
        }
    }
    if (!solo_first)
    {
        run_solo();
    }
    for (size_t t = 0; t < lists.size(); ++t)
    {
        const auto &a = solo[t], &b = conc[t];
        if (a.threw != b.threw || a.flatten != b.flatten || a.targets != b.targets || a.select != b.select || a.iter_flatten != b.iter_flatten ||
            a.iter_targets != b.iter_targets)
        {
            c.fail("dataset-view-differs",
                   std::string("thread ") + std::to_string(t) + ": " +
                       (a.flatten != b.flatten ? "flatten" : a.targets != b.targets ? "targets" : a.select != b.select ? "select" : "iterator loop") +
                       " on the shared dataset differs from the same call alone");
            break;
        }
        c.dig(a.flatten);
    }
    if (d.dataset->concurrency() >= 2)
    {
        c.probe("dataset_pool_shared_by_submitters");
    }
    c.probe("dataset_runs");
}

// ---------------------------------------------------------------------------------------------
ml::params_t fast_params(vrng& r, int64_t folds, bool tight)
{
    ml::params_t params;
    auto         solver = solver_t::all().get("lbfgs");
    solver->parameter("solver::max_evals") = tight ? 500 : 60;
    solver->parameter("solver::epsilon")   = tight ? 1e-10 : 1e-6;
    params.solver(*solver);
    auto tuner = tuner_t::all().get(r.coin() ? "local-search" : "surrogate");
    tuner->parameter("tuner::max_evals") = 10;
    params.tuner(*tuner);
    auto splitter = splitter_t::all().get(r.coin(0.7) ? "k-fold" : "random");
    splitter->parameter("splitter::folds") = folds;
    splitter->parameter("splitter::seed")  = r.range(0, 1024);
    params.splitter(*splitter);
    if (getenv("VERIF_DEBUG_LOG") != nullptr)
    {
        params.logger(make_stdout_logger());
    }
    return params;
}

struct fitted_t
{
    std::unique_ptr<learner_t> model;
    std::string                what;
};

fitted_t fit_model(vrng& r, const dataset_t& dataset, const indices_t& samples, const ml::params_t& params, int64_t which, int64_t batch,
                   ml::result_t* result = nullptr, bool well_conditioned = false)
{
    fitted_t f;
    const auto loss = loss_t::all().get(dataset.type() == task_type::regression ? "mse" : "s-classnll");
    if (which < 4)
    {
        static const char* const ids[] = {"ordinary", "ridge", "lasso", "elastic_net"};
        auto                     model = linear_t::all().get(ids[which]);
        model->parameter("linear::batch")   = batch;
        model->parameter("linear::scaling") = r.pick(well_conditioned ? std::vector<string_t>{"standard", "standard", "minmax"}
                                                                     : std::vector<string_t>{"none", "mean", "minmax", "standard"});
        auto res = model->fit(dataset, samples, *loss, params);
        if (result != nullptr)
        {
            *result = std::move(res);
        }
        f.what  = std::string("linear:") + ids[which];
        f.model = std::move(model);
    }
    else
    {
        auto model = std::make_unique<gboost_model_t>();
        model->parameter("gboost::max_rounds") = r.range(10, 16);
        model->parameter("gboost::patience")   = r.range(1, 4);
        model->parameter("gboost::batch")      = batch;
        model->parameter("gboost::epsilon")    = 1e-6;
        model->parameter("gboost::seed")       = r.range(0, 1024);
        model->parameter("gboost::subsample")  = r.pick(std::vector<string_t>{"off", "off", "subsample", "bootstrap"});
        rwlearners_t protos;
        for (const auto& id : wlearner_t::all().ids())
        {
            // fit-vs-fit comparisons (well_conditioned): decision trees end in leaves of two or three samples that several features
            // separate equally well, and tables fit a categorical feature exactly, after which every candidate scores the same up to
            // 1e-16 - both are factories of numerical near-ties (known finding F9). The comparison keeps to stumps, hinges and
            // affine learners; trees and tables are covered by the weak-learner differential of C10 with identical inputs.
            const bool near_tie_prone = id == "dtree" || id.find("table") != string_t::npos;
            const bool take           = r.coin(0.5) || protos.empty();
            if (take && !(well_conditioned && near_tie_prone))
            {
                protos.emplace_back(wlearner_t::all().get(id));
                if (getenv("VERIF_DEBUG_WLOG") != nullptr)
                {
                    protos.back()->logger(make_stdout_logger());
                }
            }
        }
        if (protos.empty())
        {
            protos.emplace_back(wlearner_t::all().get("stump"));
        }
        model->prototypes(std::move(protos));
        auto res = model->fit(dataset, samples, *loss, params);
        if (result != nullptr)
        {
            *result = std::move(res);
        }
        f.what  = "gboost";
        f.model = std::move(model);
    }
    return f;
}

void scenario_model(ctx_t& c)
{
    auto&      r        = c.wl;
    const auto nthreads = c.knob("threads", r.coin(0.7) ? r.range(2, 4) : r.range(2, 6));
    const auto pool     = c.knob("pool", r.pick<int64_t>({1, 2, 2, 3, 16}));
    const auto big      = c.knob("big", r.coin(0.35) ? 1 : 0) != 0; // enough samples for several evaluation batches
    const auto which    = c.knob("model", r.range(0, 4));
    const auto batch    = c.knob("batch", r.coin(0.6) ? r.range(10, 40) : r.range(10, 200));
    auto       d        = make_data(r, which < 4 && r.coin(0.3) ? 2 : 1, pool, big ? 210 : 12, big ? 330 : 50, false, r.coin(0.5) ? 0.0 : 0.1);
    const auto all      = arange(0, d.dataset->samples());
    const auto params   = fast_params(r, 2, false);
    // fit on a sub-sample to keep it cheap; prediction/evaluation use all samples
    const auto fit_samples = arange(0, std::min<tensor_size_t>(d.dataset->samples(), 40));
    auto       fitted      = fit_model(r, *d.dataset, fit_samples, params, which, batch);
    const auto loss        = loss_t::all().get(d.dataset->type() == task_type::regression ? "mse" : "s-classnll");
    c.sample = "shared fitted " + fitted.what + " samples=" + std::to_string(d.dataset->samples()) + " pool=" + std::to_string(d.dataset->concurrency()) +
               " batch=" + std::to_string(batch) + " threads=" + std::to_string(nthreads);

    std::vector<indices_t> lists;
    for (int64_t t = 0; t < nthreads; ++t)
    {
        lists.push_back(r.coin(0.5) ? all : random_samples(r, d.dataset->samples(), false));
    }
    struct out_t
    {
        uint64_t predict{0}, evaluate{0};
        bool     threw{false};
    };
    const learner_t& shared = *fitted.model;
    const auto       call   = [&](const indices_t& samples, bool yields)
    {
        out_t o;
        try
        {
            o.predict = vf::tensor_digest(shared.predict(*d.dataset, samples));
            if (yields)
            {
                simrt_yield("model");
            }
            o.evaluate = vf::tensor_digest(shared.evaluate(*d.dataset, samples, *loss));
        }
        catch (const std::exception&)
        {
            o.threw = true;
        }
        return o;
    };
    std::vector<out_t> solo, conc(lists.size());
    const bool         solo_first = r.coin(); // (the calls alone come before or after the concurrent ones)
    const auto         run_solo   = [&]
    {
        for (const auto& l : lists)
        {
            solo.push_back(call(l, false));
        }
    };
    if (solo_first)
    {
        run_solo();
    }
    {
        std::vector<std::thread> threads;
        for (size_t t = 0; t < lists.size(); ++t)
        {
            threads.emplace_back([&, t] { conc[t] = call(lists[t], true); });
        }
        for (auto& t : threads)
        {
            t.join();
        }
    }
    if (!solo_first)
    {
        run_solo();
    }
    for (size_t t = 0; t < lists.size(); ++t)
    {
        if (solo[t].threw != conc[t].threw || solo[t].predict != conc[t].predict || solo[t].evaluate != conc[t].evaluate)
        {
            c.fail("model-result-differs", fitted.what + ": concurrent " + (solo[t].predict != conc[t].predict ? "predict" : "evaluate") +
                                               " on the shared fitted model differs from the same call alone");
            break;
        }
        c.dig(solo[t].predict);
    }
    c.probe("model_runs");
    c.probe(std::string("model_") + (which < 4 ? "linear" : "gboost"));
    if (big && d.dataset->concurrency() >= 2 && batch < 100)
    {
        c.probe("evaluate_with_several_batches_and_small_inner_batch");
    }
}

// ---------------------------------------------------------------------------------------------
void scenario_fit(ctx_t& c)
{
    auto&      r      = c.wl;
    const auto which  = c.knob("model", r.pick<int64_t>({0, 1, 1, 4, 4, 4}));
    const auto pool   = c.knob("pool", r.pick<int64_t>({1, 2, 3, 16}));
    const auto batch  = c.knob("batch", r.range(10, 40));
    const auto folds  = c.knob("folds", r.range(2, 4));
    const auto cores  = c.cfg.cores;
    // reference: the same fit with one core everywhere (all pools inline), same workload stream
    vrng       wl_ref = r, wl_sim = r;
    const vrng wl_ref0 = r;
    r.next();
    using history_t = std::vector<std::vector<std::array<double, 4>>>; // per fold of the optimum trial: per kept round (errors / losses)
    history_t  hist_ref, hist_sim;
    const auto run_fit = [&](vrng& wr, int ncores, int64_t npool, tensor4d_t& predictions, indices_t& features, tensor1d_t& optimum, std::string& what,
                             history_t& history, double target_scale = 1.0, int64_t batch_override = 0, uint64_t target_noise = 0, double noise_amplitude = 1e-13)
    {
        simrt_set_cores(ncores);
        // (gradient boosting also sees features at extreme magnitudes - subnormal numbers, physical units; linear models stay
        // well conditioned, see the tolerance note below)
        const bool extreme = wr.coin(0.5) && which >= 4;
        auto       d       = make_data(wr, 1, npool, 30, 60, false, 0.0, target_scale, extreme, target_noise, noise_amplitude);
        const auto samples = arange(0, d.dataset->samples());
        const auto params  = fast_params(wr, folds, true);
        ml::result_t result;
        auto         fitted = fit_model(wr, *d.dataset, samples, params, which, batch_override > 0 ? batch_override : batch, &result, true);
        what                = fitted.what;
        for (const auto& p : fitted.model->parameters())
        {
            std::ostringstream o;
            o << p.value();
            what += " " + p.name() + "=" + o.str();
        }
        predictions         = fitted.model->predict(*d.dataset, samples);
        if (const auto* gb = dynamic_cast<const gboost_model_t*>(fitted.model.get()))
        {
            features = gb->features();
            for (tensor_size_t fold = 0; fold < result.folds(); ++fold)
            {
                history.emplace_back();
                if (const auto* st = std::any_cast<gboost::result_t>(&result.extra(result.optimum_trial(), fold)))
                {
                    for (tensor_size_t round = 0; round < st->m_statistics.size<0>(); ++round)
                    {
                        history.back().push_back({st->m_statistics(round, 0), st->m_statistics(round, 1), st->m_statistics(round, 2), st->m_statistics(round, 3)});
                    }
                }
            }
            if (getenv("VERIF_DEBUG_LOG") != nullptr)
            {
                for (tensor_size_t fold = 0; fold < result.folds(); ++fold)
                {
                    const auto* st = std::any_cast<gboost::result_t>(&result.extra(result.optimum_trial(), fold));
                    printf("DBG cores=%d fold=%d rounds=%d:", ncores, (int)fold, (int)st->m_statistics.size<0>() - 1);
                    for (const auto& w : st->m_wlearners)
                    {
                        const auto f = w->features();
                        printf(" %s(f%d", w->type_id().c_str(), f.size() > 0 ? (int)f(0) : -1);
                        if (const auto* sw = dynamic_cast<const single_feature_wlearner_t*>(w.get()))
                        {
                            printf(",t0=%.17g", sw->tables().size() > 0 ? sw->tables()(0) : 0.0);
                        }
                        printf(")");
                        if (const auto* dt = dynamic_cast<const dtree_wlearner_t*>(w.get()))
                        {
                            std::ostringstream o;
                            o.precision(17);
                            o << dt->nodes();
                            printf(" nodes=%s", o.str().c_str());
                        }
                    }
                    printf("\n");
                }
            }
        }
        if (result.trials() > 0)
        {
            const auto p = result.params(result.optimum_trial());
            optimum.resize(p.size());
            optimum = p;
        }
    };
    tensor4d_t  pred_ref, pred_sim;
    indices_t   feat_ref, feat_sim;
    tensor1d_t  opt_ref, opt_sim;
    std::string what;
    run_fit(wl_ref, 1, 1, pred_ref, feat_ref, opt_ref, what, hist_ref);
    run_fit(wl_sim, cores, pool, pred_sim, feat_sim, opt_sim, what, hist_sim);
    // Diagnosis of a divergence (known finding F9): the two fits agree round by round until a boosting round that improves the
    // training loss by less than rounding noise (typically after a categorical feature has been fitted exactly, so that every
    // remaining candidate scores the same up to 1e-16). Which candidate wins such a round is decided by the re-association noise
    // of the scale step, and the models go different ways from there. Only THIS history is classified as the known finding.
    const auto same_fit = [&](const tensor4d_t& pa, const indices_t& fa, const tensor4d_t& pb, const indices_t& fb, double rel)
    {
        if (fa.size() != fb.size() || !std::equal(std::begin(fa), std::end(fa), std::begin(fb)) || pa.size() != pb.size())
        {
            return false;
        }
        double scale = 1e-12;
        for (tensor_size_t i = 0; i < pa.size(); ++i)
        {
            scale = std::max(scale, std::fabs(pa(i)));
        }
        for (tensor_size_t i = 0; i < pa.size(); ++i)
        {
            if (std::fabs(pa(i) - pb(i)) > rel * scale)
            {
                return false;
            }
        }
        return true;
    };
    // Second diagnosis, more general: is the ONE-CORE fit itself stable? The same fit is repeated on one core with the targets
    // multiplied by 1 +- 1e-13 and 1 +- 1e-11 (far below anything a user could mean, far above the 1e-16 re-association noise of
    // the parallel reductions). If such a perturbation already changes the selected features or the predictions, some decision
    // of this fit (a weak learner, a threshold, a stopping round) sits on a numerical near-tie, and a dependence on the thread
    // count there is the known finding F9, not a new one.
    const auto numerically_unstable = [&]()
    {
        const auto differs = [&](double target_scale, int64_t batch_override, uint64_t target_noise = 0, double noise_amplitude = 1e-13)
        {
            vrng        wl = wl_ref0;
            tensor4d_t  p;
            indices_t   f;
            tensor1d_t  o;
            std::string w;
            history_t   h;
            run_fit(wl, 1, 1, p, f, o, w, h, target_scale, batch_override, target_noise, noise_amplitude);
            return !same_fit(pred_ref, feat_ref, p, f, 1e-6);
        };
        // (a) the same re-association that threads cause, on ONE core: other batch sizes group the additions of the single
        //     accumulator differently (the statement also says that results do not depend on the batch size)
        for (const int64_t other : {10, 11, 13, 17, 19, 23, 29, 37, 53, 97, 10000})
        {
            if (other != batch && differs(1.0, other))
            {
                c.probe("one_core_fit_unstable_under_reassociation");
                return true;
            }
        }
        // (b) targets multiplied by 1 +- 1e-13 / 1e-11
        for (const double eps : {1e-13, -1e-13, 1e-11, -1e-11})
        {
            if (differs(1.0 + eps, 0))
            {
                c.probe("one_core_fit_unstable_under_1e-11_perturbation");
                return true;
            }
        }
        // (c) every target multiplied by its OWN factor 1 + 1e-13 * u: candidates that are equally good in exact arithmetic for a
        //     structural reason (two hinges that are active on the same single sample and fit it exactly, ...) are told apart by
        //     the rounding of their closed forms only, which a common factor leaves (nearly) alone and an uncorrelated one
        //     re-draws. Exactly tied candidates that are computed by identical operations (duplicate columns: the F3 situation)
        //     stay exactly tied under any perturbation of the targets and are NOT excused by this probe.
        // Amplitudes up to 1e-8: the re-association noise of the reductions does not stay at 1e-16 - it decides where the
        // iterative solver of the scale step stops, i.e. it is amplified up to the solver's tolerance (1e-10 here) before it
        // meets the next decision. 1e-8 relative is still three orders below the statement's 1e-5.
        for (const double amplitude : {1e-13, 1e-11, 1e-9, 1e-8})
        {
            for (uint64_t k = 1; k <= 8; ++k)
            {
                if (differs(1.0, 0, 0x9e3779b97f4a7c15ULL * k, amplitude))
                {
                    if (getenv("VERIF_DEBUG_LOG") != nullptr)
                    {
                        printf("DBG unstable under uncorrelated noise %g (try %d)\n", amplitude, (int)k);
                    }
                    c.probe(amplitude > 1e-12 ? "one_core_fit_unstable_under_uncorrelated_1e-9_noise" : "one_core_fit_unstable_under_uncorrelated_1e-13_noise");
                    return true;
                }
            }
        }
        return false;
    };
    const auto noise_level_divergence = [&]()
    {
        if (numerically_unstable())
        {
            return true;
        }
        for (size_t fold = 0; fold < hist_ref.size() && fold < hist_sim.size(); ++fold)
        {
            const auto& a = hist_ref[fold];
            const auto& b = hist_sim[fold];
            size_t      r = 0;
            while (r < a.size() && r < b.size() && vf::close(a[r][1], b[r][1], 1e-9, 1e-12) && vf::close(a[r][3], b[r][3], 1e-9, 1e-12))
            {
                ++r;
            }
            if (r == a.size() && r == b.size())
            {
                continue; // this fold agrees
            }
            // first differing round r: did either fit make a noise-level step there (or just before)?
            const auto tiny = [&](const std::vector<std::array<double, 4>>& h, size_t k)
            { return k >= 1 && k < h.size() && std::fabs(h[k][1] - h[k - 1][1]) <= 1e-9 * std::max(1e-3, std::fabs(h[k - 1][1])); };
            if (tiny(a, r) || tiny(b, r) || tiny(a, r + 1) || tiny(b, r + 1))
            {
                return true;
            }
            return false;
        }
        return false;
    };
    c.sample = "fit " + what + " cores=" + std::to_string(cores) + " pool=" + std::to_string(pool) + " folds=" + std::to_string(folds) +
               " batch=" + std::to_string(batch) + " vs one core";
    // agreement up to floating-point re-association
    if (feat_ref.size() != feat_sim.size() || !std::equal(std::begin(feat_ref), std::end(feat_ref), std::begin(feat_sim)))
    {
        std::ostringstream o;
        o << what << ": selected features depend on the number of threads / schedule: one core {";
        for (const auto f : feat_ref)
        {
            o << f << " ";
        }
        o << "} vs {";
        for (const auto f : feat_sim)
        {
            o << f << " ";
        }
        o << "}";
        c.fail(noise_level_divergence() ? "fit-differs-at-numerical-near-tie" : "fit-features-differ", o.str());
    }
    else if (pred_ref.size() != pred_sim.size())
    {
        c.fail("fit-predictions-differ", what + ": prediction shapes differ");
    }
    else
    {
        double scale = 1e-12;
        for (tensor_size_t i = 0; i < pred_ref.size(); ++i)
        {
            scale = std::max(scale, std::fabs(pred_ref(i)));
        }
        for (tensor_size_t i = 0; i < pred_ref.size(); ++i)
        {
            // the statement allows 1e-5 relative; linear models add the solver's own stopping precision on top of the
            // re-association noise (never stricter than the statement: a looser bound cannot raise a false alarm)
            if (std::fabs(pred_ref(i) - pred_sim(i)) > (which < 4 ? 1e-4 : 1e-5) * scale)
            {
                c.fail(noise_level_divergence() ? "fit-differs-at-numerical-near-tie" : "fit-predictions-differ",
                       what + ": predictions differ by " + std::to_string(std::fabs(pred_ref(i) - pred_sim(i)) / scale) +
                                                     " relative between one core and " + std::to_string(cores) + " cores");
                break;
            }
        }
    }
    c.probe("fit_runs");
    c.probe(which < 4 ? "fit_linear" : "fit_gboost");
    c.dig(static_cast<uint64_t>(pred_ref.size()));
}

void run(ctx_t& c)
{
    const auto scenario = c.knob("scenario", c.wl.pick<int64_t>({0, 0, 0, 1, 2, 2, 2, 3, 3, 3, 4, 4}));
    c.begin_sim(static_cast<int>(c.knob("max_cores", 16)));
    switch (scenario)
    {
    case 0: scenario_solver(c); break;
    case 1: scenario_loss(c); break;
    case 2: scenario_dataset(c); break;
    case 3: scenario_model(c); break;
    default: scenario_fit(c); break;
    }
    c.end_sim();
}
} // namespace

int main(int argc, char** argv)
{
    return vf::worker_main(argc, argv, "C18", run,
                           []
                           {
                               vf::warm_factories();
                           });
}
