// Self-test of the interposition seam: the simulator must own every source of nondeterminism it claims to own on this
// image (libstdc++ 12 / glibc 2.36). Exit 0 if so; anything else makes the calling check exit 2 ("cannot decide").
#include "../sim/simrt.h"

#include <chrono>
#include <condition_variable>
#include <cstdio>
#include <ctime>
#include <future>
#include <mutex>
#include <random>
#include <thread>
#include <vector>

#include <nano/core/random.h>

namespace
{
struct outcome_t
{
    simrt_stats stats;
    unsigned    hw, rd1, rd2;
    long long   steady, sys, tm;
    int         sum;
    uint64_t    rng;
};

outcome_t scenario(uint64_t seed, int cores)
{
    simrt_config cfg;
    simrt_default_config(&cfg, seed);
    cfg.cores      = cores;
    cfg.p_spurious = 0.05;
    cfg.p_eagain   = 0.05;
    simrt_begin(&cfg);
    outcome_t o{};
    {
        std::mutex              m;
        std::condition_variable cv;
        int                     turn = 0, sum = 0;
        std::once_flag          once;
        auto                    ping = [&](int me)
        {
            for (int i = 0; i < 5; ++i)
            {
                std::unique_lock lock(m);
                cv.wait(lock, [&] { return turn % 2 == me; });
                std::call_once(once, [&] { sum += 1000; });
                sum += i;
                ++turn;
                cv.notify_all();
            }
        };
        std::thread a(ping, 0), b(ping, 1);
        std::promise<int> p;
        auto              f = p.get_future();
        std::thread       c([&] { simrt_yield("selftest"); p.set_value(7); });
        const int got = f.get();
        a.join();
        b.join();
        c.join();
        sum += got;
        // (the pool under test is deliberately not used here: a broken pool must show up as a violation of C17, not as
        // a failure of the self-test)
        std::packaged_task<int()> task([] { return 10; });
        auto                      tf = task.get_future();
        std::thread               d([&] { task(); });
        sum += tf.get();
        d.join();
        o.sum = sum;
        o.hw  = std::thread::hardware_concurrency();
        std::random_device rd;
        o.rd1    = rd();
        o.rd2    = rd();
        o.steady = std::chrono::steady_clock::now().time_since_epoch().count();
        o.sys    = std::chrono::system_clock::now().time_since_epoch().count();
        o.tm     = static_cast<long long>(std::time(nullptr));
        auto rng = nano::make_rng();
        o.rng    = rng();
    }
    o.stats = simrt_end();
    return o;
}

bool same(const outcome_t& a, const outcome_t& b)
{
    return a.stats.trace_hash == b.stats.trace_hash && a.stats.steps == b.stats.steps && a.hw == b.hw && a.rd1 == b.rd1 &&
           a.rd2 == b.rd2 && a.steady == b.steady && a.sys == b.sys && a.tm == b.tm && a.sum == b.sum && a.rng == b.rng;
}
} // namespace

int main()
{
    std::thread([] {}).join();
    int failures = 0;
    const auto check = [&](bool ok, const char* what)
    {
        if (!ok)
        {
            printf("selftest: FAILED %s\n", what);
            ++failures;
        }
    };
    const auto a1 = scenario(11, 3);
    const auto a2 = scenario(11, 3);
    const auto b  = scenario(12, 5);
    check(same(a1, a2), "same seed -> same trace, entropy, clocks and results");
    check(a1.stats.trace_hash != b.stats.trace_hash, "different seeds -> different schedules");
    check(a1.sum == 1000 + 2 * (0 + 1 + 2 + 3 + 4) + 7 + 10, "program result");
    check(a1.hw == 3 && b.hw == 5, "hardware_concurrency is the simulated core count");
    check(a1.rd1 != a1.rd2 && a1.rd1 != b.rd1, "random_device is the seeded entropy stream");
    check(a1.rng != b.rng, "nano::make_rng() draws from the entropy seam");
    check(a1.stats.threads == 1 + 3 + 1, "every thread is simulated");
    // ops: create, lock, cond-wait, signal/bcast, once, futex wait, futex wake
    check(a1.stats.ops[0] == 4, "pthread_create intercepted");
    check(a1.stats.ops[4] >= 10 && a1.stats.ops[6] >= 10, "mutex lock/unlock intercepted");
    check(a1.stats.ops[7] > 0, "condition_variable::wait intercepted");
    check(a1.stats.ops[9] > 0, "condition_variable::notify_all intercepted");
    check(a1.stats.ops[10] > 0, "call_once intercepted");
    check(a1.stats.ops[11] + a1.stats.ops[12] > 0, "future wait/notify (futex) intercepted");
    check(a1.stats.ops[15] >= 3, "clocks intercepted");
    check(a1.stats.switches > 5, "context switches happen");
    check(a1.tm >= 1700000000LL && a1.tm < 1700000000LL + 1000, "time() is the simulated clock");
    // outside the simulation everything falls through to the real implementation
    check(std::thread::hardware_concurrency() >= 1, "real hardware_concurrency outside the simulation");
    {
        int                      n = 0;
        std::mutex               m;
        std::vector<std::thread> ts;
        for (int i = 0; i < 4; ++i)
        {
            ts.emplace_back([&] { for (int k = 0; k < 25; ++k) { const std::scoped_lock lock(m); ++n; } });
        }
        for (auto& t : ts)
        {
            t.join();
        }
        check(n == 100, "real threads outside the simulation");
    }
    if (failures == 0)
    {
        printf("selftest: ok (trace %016llx, %llu steps)\n", (unsigned long long)a1.stats.trace_hash, (unsigned long long)a1.stats.steps);
    }
    return failures == 0 ? 0 : 1;
}
