// C11 - fitted models reproduce their reported statistics (fit clauses).
// One run = one complete fit() of a linear or gradient-boosting model on a seeded dataset under the run's simulated core
// count and schedule (ml::tune runs the (trial, fold) fits concurrently in its own pool; each fit uses the dataset pool).
// Afterwards the statistics stored in the returned ml::result_t are recomputed from scratch: by predicting with the model
// stored for each (trial, fold) on that fold's training / validation samples (recomputed from the splitter), and with the
// final model on the fit samples; the boosting model must equal bias + sum of its weak learners, and the final boosting model
// the average of the per-fold models of the optimum trial. Early stopping is checked through this coupling (the stored values
// are the monitor's snapshot, the recomputed ones come from the learners the fold model kept) and through the necessary
// conditions on the kept per-round history.
#include "mldata.h"
#include <nano/wlearner/hinge.h>

#include <nano/gboost/model.h>
#include <nano/gboost/result.h>
#include <nano/linear.h>
#include <nano/linear/result.h>
#include <nano/linear/util.h>
#include <nano/machine/stats.h>
#include <nano/wlearner/single.h>

using namespace nano;
using vf::ctx_t;
using vrng = vf::rng_t;

namespace
{
std::string pstr(const parameter_t& p)
{
    std::ostringstream o;
    o << p.value();
    return o.str();
}

struct stats12_t
{
    double v[12];
};

stats12_t stats_of(std::vector<double> values)
{
    stats12_t  s{};
    tensor1d_t t(static_cast<tensor_size_t>(values.size())), out(12);
    for (size_t i = 0; i < values.size(); ++i)
    {
        t(static_cast<tensor_size_t>(i)) = values[i];
    }
    // (order statistics are decided under C20: the library's own routine is applied to the recomputed per-sample values)
    ml::store_stats(t.tensor(), out.tensor());
    for (int i = 0; i < 12; ++i)
    {
        s.v[i] = out(i);
    }
    return s;
}

bool same_stats(const ml::stats_t& got, const stats12_t& want, double rel, std::string& why)
{
    const double g[12] = {got.m_mean,  got.m_stdev, got.m_count, got.m_per01, got.m_per05, got.m_per10,
                          got.m_per20, got.m_per50, got.m_per80, got.m_per90, got.m_per95, got.m_per99};
    static const char* const names[12] = {"mean", "stdev", "count", "p01", "p05", "p10", "p20", "p50", "p80", "p90", "p95", "p99"};
    // (errors and losses are O(1) in the generated data: a perfect fit leaves values of 1e-17 where "relative" means nothing)
    double scale = 1e-3;
    for (int i = 0; i < 12; ++i)
    {
        if (i != 2)
        {
            scale = std::max(scale, std::fabs(want.v[i]));
        }
    }
    for (int i = 0; i < 12; ++i)
    {
        // the deviation of (nearly) equal values is cancellation noise of the order sqrt(epsilon) * mean (and NaN when the
        // rounded variance comes out negative): both sides count as "zero" below that floor
        if (i == 1)
        {
            const auto a = std::isnan(g[i]) ? 0.0 : g[i], b = std::isnan(want.v[i]) ? 0.0 : want.v[i];
            if (std::fabs(a - b) <= std::max(rel, 1e-6) * scale)
            {
                continue;
            }
        }
        if (!vf::close(g[i], want.v[i], rel, rel * scale))
        {
            std::ostringstream o;
            o.precision(17);
            o << names[i] << " stored " << g[i] << " recomputed " << want.v[i];
            why = o.str();
            return false;
        }
    }
    return true;
}

// errors / losses of given predictions on given samples
void score(const dataset_t& dataset, const loss_t& loss, const indices_t& samples, const tensor4d_t& outputs, std::vector<double>& errors,
           std::vector<double>& losses)
{
    tensor4d_t tbuf;
    const auto targets = dataset.targets(samples, tbuf);
    tensor1d_t e, l;
    loss.error(targets, outputs, e);
    loss.value(targets, outputs, l);
    errors.assign(e.data(), e.data() + e.size());
    losses.assign(l.data(), l.data() + l.size());
}

// classification errors are discontinuous in the outputs: a sample sitting on a decision boundary (ties between class scores,
// a score of exactly zero) can flip with the last bit of a re-associated sum
bool near_boundary(const feature_t& target, const tensor4d_t& outputs, tensor_size_t tsize)
{
    if (!target.is_sclass() && !target.is_mclass())
    {
        return false;
    }
    double scale = 1.0;
    for (tensor_size_t i = 0; i < outputs.size(); ++i)
    {
        scale = std::max(scale, std::fabs(outputs(i)));
    }
    const auto n = outputs.size() / std::max<tensor_size_t>(tsize, 1);
    for (tensor_size_t s = 0; s < n; ++s)
    {
        double top1 = -std::numeric_limits<double>::infinity(), top2 = top1, amin = std::numeric_limits<double>::infinity();
        for (tensor_size_t k = 0; k < tsize; ++k)
        {
            const auto v = outputs(s * tsize + k);
            amin         = std::min(amin, std::fabs(v));
            if (v > top1)
            {
                top2 = top1;
                top1 = v;
            }
            else if (v > top2)
            {
                top2 = v;
            }
        }
        if (amin < 1e-9 * scale || (tsize > 1 && top1 - top2 < 1e-9 * scale))
        {
            return true;
        }
    }
    return false;
}

// magnitude of the TERMS that make up a prediction (w * x and b cancel for an ill-conditioned affine / linear fit): rounding
// differences between two evaluation orders are relative to this, not to the prediction
double term_scale(const dataset_t& dataset, const rwlearners_t& wlearners)
{
    double     term = 0.0;
    const auto all  = arange(0, dataset.samples());
    for (const auto& w : wlearners)
    {
        if (const auto* single = dynamic_cast<const single_feature_wlearner_t*>(w.get()))
        {
            double tmax = 0.0, xmax = 1.0;
            for (tensor_size_t i = 0; i < single->tables().size(); ++i)
            {
                tmax = std::max(tmax, std::fabs(single->tables()(i)));
            }
            if (single->feature() >= 0 && dataset.feature(single->feature()).is_scalar())
            {
                scalar_mem_t b;
                const auto   v = dataset.select(all, single->feature(), b);
                for (tensor_size_t i = 0; i < v.size(); ++i)
                {
                    if (std::isfinite(v(i)))
                    {
                        xmax = std::max(xmax, std::fabs(v(i)));
                    }
                }
            }
            term = std::max(term, tmax * xmax);
        }
    }
    return term;
}

double max_abs(const tensor4d_t& t)
{
    double m = 1e-3;
    for (tensor_size_t i = 0; i < t.size(); ++i)
    {
        m = std::max(m, std::fabs(t(i)));
    }
    return m;
}

tensor4d_t linear_predict(const dataset_t& dataset, const indices_t& samples, const tensor2d_t& weights, const tensor1d_t& bias)
{
    // missing values -> 0 through the (un)scaling with mode none, exactly like the library's own prediction path
    auto       iterator = flatten_iterator_t{dataset, samples};
    tensor2d_t fbuf;
    tensor2d_t inputs = dataset.flatten(samples, fbuf);
    iterator.flatten_stats().scale(scaling_type::none, inputs.tensor());
    // the library's own kernel for W * x + b (trusted: C09 decides it against the per-sample definition): classification
    // errors are discontinuous in the outputs, so a re-associated sum could flip a sample that sits exactly on a boundary
    tensor4d_t outputs(cat_dims(samples.size(), dataset.target_dims()));
    ::nano::linear::predict(inputs, weights, bias, outputs.tensor());
    return outputs;
}

std::string learner_names(const rwlearners_t& wlearners)
{
    std::string s;
    for (const auto& w : wlearners)
    {
        s += " " + w->type_id();
    }
    return s;
}

tensor4d_t gboost_predict(const dataset_t& dataset, const indices_t& samples, const tensor1d_t& bias, const rwlearners_t& wlearners)
{
    const auto tsize = ::nano::size(dataset.target_dims());
    tensor4d_t outputs(cat_dims(samples.size(), dataset.target_dims()));
    for (tensor_size_t s = 0; s < samples.size(); ++s)
    {
        for (tensor_size_t o = 0; o < tsize; ++o)
        {
            outputs(s * tsize + o) = bias(o);
        }
    }
    for (const auto& w : wlearners)
    {
        w->predict(dataset, samples, outputs.tensor());
    }
    return outputs;
}

void body(ctx_t& c)
{
    auto&      r     = c.wl;
    const auto which = c.knob("model", r.pick<int64_t>({0, 1, 2, 3, 4, 4, 4, 4}));
    const auto pool  = c.knob("pool", r.pick<int64_t>({1, 2, 2, 3, 4, 16}));
    const auto folds = c.knob("folds", r.range(2, 5));
    const auto batch = c.knob("batch", r.coin(0.7) ? r.range(10, 30) : r.range(10, 200));

    vf::schema_opts_t o;
    o.min_features = 2;
    o.max_features = 6;
    o.min_samples  = 20;
    o.max_samples  = static_cast<int>(c.knob("max_samples", 70));
    o.allow_struct = false;
    o.max_classes  = 4;
    o.target_kind  = which < 4 ? static_cast<int>(r.pick<int64_t>({1, 1, 2, 3})) : static_cast<int>(r.pick<int64_t>({1, 1, 1, 2}));
    const auto schema = vf::random_schema(r, o);
    auto       source = vf::sim_datasource_t(schema, r.next(), r.coin(0.5) ? 0.0 : 0.15, true, static_cast<int>(r.range(0, 1)));
    source.load();
    auto dataset = dataset_t{source, static_cast<size_t>(pool)};
    vf::add_identity_generators(dataset);

    // fit samples: all or a subset
    indices_t samples = arange(0, dataset.samples());
    if (r.coin(0.3))
    {
        std::vector<tensor_size_t> pick;
        for (tensor_size_t i = 0; i < dataset.samples(); ++i)
        {
            if (r.coin(0.8))
            {
                pick.push_back(i);
            }
        }
        if (static_cast<int64_t>(pick.size()) >= 3 * folds)
        {
            samples = indices_t(static_cast<tensor_size_t>(pick.size()));
            std::copy(pick.begin(), pick.end(), std::begin(samples));
        }
    }

    // ... in any order (the interface takes a list of sample indices, not a sorted set)
    bool shuffled = false;
    if (r.coin(0.3))
    {
        for (tensor_size_t i = samples.size() - 1; i > 0; --i)
        {
            std::swap(samples(i), samples(r.range(0, i)));
        }
        shuffled = true;
        c.probe("fit_samples_in_arbitrary_order");
    }

    const auto& target = schema.features[schema.target];
    strings_t   loss_ids;
    if (target.is_sclass())
    {
        loss_ids = {"s-classnll", "s-logistic", "s-hinge", "s-exponential"};
    }
    else if (target.is_mclass())
    {
        loss_ids = {"m-logistic", "m-hinge", "m-exponential"};
    }
    else
    {
        loss_ids = {"mse", "mae", "cauchy"};
    }
    const auto loss = loss_t::all().get(r.pick(loss_ids));

    ml::params_t params;
    {
        auto solver = solver_t::all().get(loss->smooth() ? "lbfgs" : "osga");
        solver->parameter("solver::max_evals") = r.range(30, 80);
        solver->parameter("solver::epsilon")   = 1e-6;
        params.solver(*solver);
        auto tuner = tuner_t::all().get(r.coin() ? "local-search" : "surrogate");
        tuner->parameter("tuner::max_evals") = r.range(10, 14);
        params.tuner(*tuner);
    }
    auto splitter = splitter_t::all().get(r.coin(0.7) ? "k-fold" : "random");
    splitter->parameter("splitter::folds") = folds;
    splitter->parameter("splitter::seed")  = r.range(0, 1024);
    params.splitter(*splitter);
    const auto splits = splitter->split(samples);

    std::ostringstream d;
    d << (which < 4 ? "linear" : "gboost") << " loss=" << loss->type_id() << " samples=" << samples.size() << "/" << dataset.samples()
      << " features=" << dataset.features() << " pool=" << dataset.concurrency() << " cores=" << c.cfg.cores << " folds=" << folds
      << " splitter=" << splitter->type_id() << " batch=" << batch << (shuffled ? " shuffled" : "");

    std::string why;
    if (which < 4)
    {
        static const char* const ids[] = {"ordinary", "ridge", "lasso", "elastic_net"};
        auto                     model = linear_t::all().get(ids[which]);
        model->parameter("linear::batch")   = batch;
        model->parameter("linear::scaling") = r.pick(std::vector<string_t>{"none", "mean", "minmax", "standard"});
        d << " model=" << ids[which] << " scaling=" << pstr(model->parameter("linear::scaling"));
        c.sample          = d.str();
        const auto result = model->fit(dataset, samples, *loss, params);
        c.probe("linear_fits");
        if (result.trials() >= 2)
        {
            c.probe("fits_with_several_trials");
        }
        for (tensor_size_t trial = 0; trial < result.trials() && !c.failed(); ++trial)
        {
            for (tensor_size_t fold = 0; fold < result.folds() && !c.failed(); ++fold)
            {
                const auto* stored = std::any_cast<linear::result_t>(&result.extra(trial, fold));
                if (stored == nullptr)
                {
                    c.fail("missing-fold-model", "no model stored for (trial, fold)");
                    break;
                }
                const auto& [tr, vd] = splits[static_cast<size_t>(fold)];
                for (const int split : {0, 1})
                {
                    const auto& idx = split == 0 ? tr : vd;
                    std::vector<double> errors, losses;
                    const auto          outputs = linear_predict(dataset, idx, stored->m_weights, stored->m_bias);
                    score(dataset, *loss, idx, outputs, errors, losses);
                    const auto sp       = split == 0 ? ml::split_type::train : ml::split_type::valid;
                    const bool boundary = near_boundary(target, outputs, ::nano::size(dataset.target_dims()));
                    if (boundary)
                    {
                        c.probe("error_statistics_skipped_near_decision_boundary");
                    }
                    if ((!boundary && !same_stats(result.stats(trial, fold, sp, ml::value_type::errors), stats_of(errors), 1e-9, why)) ||
                        !same_stats(result.stats(trial, fold, sp, ml::value_type::losses), stats_of(losses), 1e-9, why))
                    {
                        c.fail("fold-statistics-differ", "linear (trial " + std::to_string(trial) + ", fold " + std::to_string(fold) + ", " +
                                                             (split == 0 ? "train" : "valid") +
                                                             "): stored statistics are not those of the stored model on that fold's samples: " + why);
                        break;
                    }
                    c.probe("fold_statistics_recomputed");
                }
            }
        }
        if (!c.failed())
        {
            std::vector<double> errors, losses;
            const auto          outputs = model->predict(dataset, samples);
            score(dataset, *loss, samples, outputs, errors, losses);
            const bool boundary = near_boundary(target, outputs, ::nano::size(dataset.target_dims()));
            if ((!boundary && !same_stats(result.stats(ml::value_type::errors), stats_of(errors), 1e-9, why)) ||
                !same_stats(result.stats(ml::value_type::losses), stats_of(losses), 1e-9, why))
            {
                c.fail("final-statistics-differ", "linear: final statistics are not those of the returned model on the fit samples: " + why);
            }
            // the returned model is the stored refit model
            const auto* refit = std::any_cast<linear::result_t>(&result.extra());
            if (refit == nullptr || !vf::bit_identical(refit->m_weights, model->weights()) || !vf::bit_identical(refit->m_bias, model->bias()))
            {
                c.fail("final-model-differs", "linear: the model's weights are not the stored refit weights");
            }
        }
        c.dig(result.stats(ml::value_type::errors).m_mean);
        return;
    }

    // ---- gradient boosting
    auto model = gboost_model_t{};
    const auto max_rounds = r.coin(0.5) ? 10 : r.range(10, 18); // (the library's minimum budget is 10: there the last round is most often an accepted one)
    const auto patience   = r.range(1, 4);
    const auto epsilon    = r.pick(std::vector<double>{1e-8, 1e-6, 1e-3, 1e-2});
    const auto gseed      = r.range(0, 1024);
    const auto wscale     = r.pick(std::vector<string_t>{"gboost", "tboost"});
    const auto shrinkage  = r.pick(std::vector<string_t>{"off", "off", "global", "local"});
    const auto subsample  = r.pick(std::vector<string_t>{"off", "off", "subsample", "bootstrap", "wei_loss_bootstrap", "wei_grad_bootstrap"});
    const auto ssratio    = r.real(0.5, 1.0);
    strings_t    proto_ids;
    std::string  proto_names;
    for (const auto& id : wlearner_t::all().ids())
    {
        if (r.coin(0.45) || proto_ids.empty())
        {
            proto_ids.push_back(id);
            proto_names += id + ",";
        }
    }
    const auto configure = [&](gboost_model_t& m, const int64_t rounds)
    {
        m.parameter("gboost::max_rounds")      = rounds;
        m.parameter("gboost::patience")        = patience;
        m.parameter("gboost::epsilon")         = epsilon;
        m.parameter("gboost::batch")           = batch;
        m.parameter("gboost::seed")            = gseed;
        m.parameter("gboost::wscale")          = wscale;
        m.parameter("gboost::shrinkage")       = shrinkage;
        m.parameter("gboost::subsample")       = subsample;
        m.parameter("gboost::subsample_ratio") = ssratio;
        rwlearners_t protos;
        for (const auto& id : proto_ids)
        {
            protos.emplace_back(wlearner_t::all().get(id));
        }
        m.prototypes(std::move(protos));
    };
    configure(model, max_rounds);
    d << " rounds=" << max_rounds << " patience=" << patience << " epsilon=" << epsilon << " wscale=" << pstr(model.parameter("gboost::wscale"))
      << " shrinkage=" << pstr(model.parameter("gboost::shrinkage")) << " subsample=" << pstr(model.parameter("gboost::subsample"))
      << " protos=" << proto_names;
    c.sample          = d.str();
    const auto result = model.fit(dataset, samples, *loss, params);
    c.probe("gboost_fits");
    if (result.trials() >= 2)
    {
        c.probe("fits_with_several_trials");
    }
    const auto all = arange(0, dataset.samples());
    for (tensor_size_t trial = 0; trial < result.trials() && !c.failed(); ++trial)
    {
        for (tensor_size_t fold = 0; fold < result.folds() && !c.failed(); ++fold)
        {
            const auto* stored = std::any_cast<gboost::result_t>(&result.extra(trial, fold));
            if (stored == nullptr)
            {
                c.fail("missing-fold-model", "no model stored for (trial, fold)");
                break;
            }
            const auto& [tr, vd] = splits[static_cast<size_t>(fold)];
            double      mean_valid = 0.0, mean_train = 0.0;
            for (const int split : {0, 1})
            {
                const auto& idx = split == 0 ? tr : vd;
                std::vector<double> errors, losses;
                const auto          outputs = gboost_predict(dataset, idx, stored->m_bias, stored->m_wlearners);
                score(dataset, *loss, idx, outputs, errors, losses);
                const auto sp       = split == 0 ? ml::split_type::train : ml::split_type::valid;
                const bool boundary = near_boundary(target, outputs, ::nano::size(dataset.target_dims()));
                // looser than for linear models: the stored values come from incrementally accumulated outputs; and relative to
                // the magnitude of the terms for ill-conditioned affine learners
                // ... and ABSOLUTE in the terms when the outputs themselves are huge: a hinge whose active side starts 1e-15 from its
                // threshold has coefficients of 1e15; one sample's output is then 16 digits of cancellation (w * x + b), the
                // library obtains the stored values once by predicting and once by multiplying the predictions with the local
                // shrinkage ratio, and the two differ by eps * |w * x| ~ 0.5 in that output - rounding, not bookkeeping
                const auto term  = term_scale(dataset, stored->m_wlearners);
                const auto cond  = std::max(1.0, term / max_abs(outputs));
                const auto noise = 64.0 * std::numeric_limits<double>::epsilon() * term;
                const auto tol   = std::max(1e-8 * cond, noise);
                if (cond > 1e4)
                {
                    c.probe("ill_conditioned_fold_models");
                }
                if (boundary)
                {
                    c.probe("error_statistics_skipped_near_decision_boundary");
                }
                if (noise > 1e-9)
                {
                    c.probe("error_statistics_skipped_for_cancelling_terms");
                }
                if ((!boundary && !(noise > 1e-9) && !same_stats(result.stats(trial, fold, sp, ml::value_type::errors), stats_of(errors), tol, why)) ||
                    !same_stats(result.stats(trial, fold, sp, ml::value_type::losses), stats_of(losses), tol, why))
                {
                    c.fail("fold-statistics-differ", "gboost (trial " + std::to_string(trial) + ", fold " + std::to_string(fold) + ", " +
                                                         (split == 0 ? "train" : "valid") + ", " + std::to_string(stored->m_wlearners.size()) +
                                                         " weak learners kept, " + std::to_string(stored->m_statistics.size<0>() - 1) +
                                                         " rounds kept; learners:" + learner_names(stored->m_wlearners) +
                                                         "): stored statistics are not those of the stored fold model: " + why);
                    break;
                }
                (split == 0 ? mean_train : mean_valid) = result.stats(trial, fold, sp, ml::value_type::errors).m_mean;
                c.probe("fold_statistics_recomputed");
            }
            if (c.failed())
            {
                break;
            }
            // the kept per-round history ends at the reported optimum round, which is the last accepted improvement
            const auto& st     = stored->m_statistics;
            const auto  rounds = st.size<0>() - 1;
            if (rounds < 0)
            {
                c.fail("history", "empty per-round history");
                break;
            }
            if (!vf::close(st(rounds, 2), mean_valid, 1e-9, 1e-12) || !vf::close(st(rounds, 0), mean_train, 1e-9, 1e-12))
            {
                c.fail("optimum-round-differs", "gboost (trial " + std::to_string(trial) + ", fold " + std::to_string(fold) +
                                                    "): the last kept round of the history does not carry the errors reported for the fold");
                break;
            }
            if (st(rounds, 0) >= epsilon)
            {
                for (tensor_size_t j = 0; j < rounds; ++j)
                {
                    if (!(st(rounds, 2) < st(j, 2) + epsilon + 1e-12))
                    {
                        c.fail("optimum-round-not-best", "gboost (trial " + std::to_string(trial) + ", fold " + std::to_string(fold) + "): kept round " +
                                                             std::to_string(rounds) + " has validation error " + std::to_string(st(rounds, 2)) +
                                                             " but earlier round " + std::to_string(j) + " had " + std::to_string(st(j, 2)));
                        break;
                    }
                }
            }
            if (static_cast<tensor_size_t>(stored->m_wlearners.size()) > rounds)
            {
                c.fail("too-many-learners-kept", "gboost: more weak learners kept (" + std::to_string(stored->m_wlearners.size()) + ") than rounds (" +
                                                     std::to_string(rounds) + ")");
                break;
            }
            if (rounds >= 1)
            {
                c.probe("fold_models_with_boosting_rounds");
            }
            if (rounds > 0 && rounds < max_rounds)
            {
                c.probe("fold_models_stopped_early");
            }
        }
    }
    if (!c.failed())
    {
        // prediction = bias + sum of the weak learners
        const auto predicted = model.predict(dataset, all);
        const auto manual    = gboost_predict(dataset, all, model.bias(), model.wlearners());
        // (targets are O(1) in the generated data: outputs of a bias-only model may be 1e-17, where "relative" means nothing)
        double     scale     = 1e-3, worst = 0.0;
        for (tensor_size_t i = 0; i < predicted.size(); ++i)
        {
            scale = std::max(scale, std::fabs(manual(i)));
        }
        for (tensor_size_t i = 0; i < predicted.size(); ++i)
        {
            worst = std::max(worst, std::fabs(predicted(i) - manual(i)) / scale);
        }
        const auto cond = std::max(1.0, term_scale(dataset, model.wlearners()) / scale);
        if (worst > 1e-12 * cond)
        {
            c.fail("prediction-not-bias-plus-learners", "gboost: predict() differs from bias + sum of weak learner predictions by " + std::to_string(worst));
        }
        // final model = average of the per-fold models of the optimum trial
        const auto opt = result.optimum_trial();
        tensor4d_t avg(cat_dims(all.size(), dataset.target_dims()));
        avg.zero();
        bool ok = true;
        for (tensor_size_t fold = 0; fold < result.folds(); ++fold)
        {
            const auto* stored = std::any_cast<gboost::result_t>(&result.extra(opt, fold));
            ok                 = ok && stored != nullptr;
            if (stored != nullptr)
            {
                const auto p = gboost_predict(dataset, all, stored->m_bias, stored->m_wlearners);
                avg.vector() += p.vector() / static_cast<double>(result.folds());
            }
        }
        worst = 0.0;
        for (tensor_size_t i = 0; i < predicted.size(); ++i)
        {
            scale = std::max(scale, std::fabs(avg(i)));
        }
        for (tensor_size_t i = 0; i < predicted.size(); ++i)
        {
            worst = std::max(worst, std::fabs(predicted(i) - avg(i)) / scale);
        }
        if (!ok || worst > 1e-9 * cond)
        {
            std::ostringstream o;
            o.precision(6);
            o << "gboost: the final model differs from the average of the optimum trial's fold models by " << worst << " relative (scale " << scale
              << ", term scale " << term_scale(dataset, model.wlearners()) << ", learners:";
            for (const auto& w : model.wlearners())
            {
                o << " " << w->type_id();
            }
            o << ")";
            c.fail("final-model-not-fold-average", o.str());
        }
        std::vector<double> errors, losses;
        const auto          outputs  = model.predict(dataset, samples);
        score(dataset, *loss, samples, outputs, errors, losses);
        const bool boundary = near_boundary(target, outputs, ::nano::size(dataset.target_dims()));
        const auto noise = 64.0 * std::numeric_limits<double>::epsilon() * term_scale(dataset, model.wlearners());
        const auto stol  = std::max(1e-9 * cond, noise);
        if (!c.failed() && ((!boundary && !(noise > 1e-9) && !same_stats(result.stats(ml::value_type::errors), stats_of(errors), stol, why)) ||
                            !same_stats(result.stats(ml::value_type::losses), stats_of(losses), stol, why)))
        {
            c.fail("final-statistics-differ", "gboost: final statistics are not those of the returned model on the fit samples: " + why);
        }
    }
    // early stopping against a LONGER history of the same fit: on one core two fits that differ only in max_rounds go through
    // bit-identical rounds; the per-round history the longer fit kept tells which round the shorter fit must keep (the
    // monitor of the statement applied to that history, cut at the shorter budget)
    if (!c.failed() && r.coin(0.35))
    {
        simrt_set_cores(1);
        auto dataset1 = dataset_t{source, 1U};
        vf::add_identity_generators(dataset1);
        const auto extra = patience + r.range(1, 3);
        auto short_model = gboost_model_t{}, long_model = gboost_model_t{};
        configure(short_model, max_rounds);
        configure(long_model, max_rounds + extra);
        const auto rs = short_model.fit(dataset1, samples, *loss, params);
        const auto rl = long_model.fit(dataset1, samples, *loss, params);
        c.probe("longer_history_differentials");
        for (tensor_size_t ts = 0; ts < rs.trials() && !c.failed(); ++ts)
        {
            // the same hyper-parameter values in both results (the tuner may walk differently once the budgets matter)
            tensor_size_t tl = -1;
            for (tensor_size_t t = 0; t < rl.trials() && tl < 0; ++t)
            {
                if (vf::bit_identical(rs.params(ts), rl.params(t)))
                {
                    tl = t;
                }
            }
            if (tl < 0)
            {
                continue;
            }
            for (tensor_size_t fold = 0; fold < rs.folds() && !c.failed(); ++fold)
            {
                const auto* ss = std::any_cast<gboost::result_t>(&rs.extra(ts, fold));
                const auto* sl = std::any_cast<gboost::result_t>(&rl.extra(tl, fold));
                if (ss == nullptr || sl == nullptr)
                {
                    continue;
                }
                const auto& hs = ss->m_statistics;
                const auto& hl = sl->m_statistics;
                const auto  opt_s = hs.size<0>() - 1, opt_l = hl.size<0>() - 1;
                // common prefix must be the same rounds (else the two fits are not comparable: not this clause's business)
                bool same_prefix = opt_s >= 0 && opt_l >= 0;
                for (tensor_size_t j = 0; same_prefix && j <= std::min(opt_s, opt_l); ++j)
                {
                    same_prefix = vf::bits(hs(j, 0)) == vf::bits(hl(j, 0)) && vf::bits(hs(j, 2)) == vf::bits(hl(j, 2));
                }
                if (!same_prefix)
                {
                    c.probe("longer_history_not_comparable");
                    continue;
                }
                tensor_size_t expected = opt_l;
                if (opt_l > max_rounds)
                {
                    // the longer fit went on past the shorter budget: replay the monitor on rounds 0..max_rounds
                    double        value    = std::numeric_limits<double>::max();
                    tensor_size_t accepted = 0;
                    for (tensor_size_t j = 0; j <= max_rounds; ++j)
                    {
                        if (hl(j, 0) < epsilon)
                        {
                            accepted = j;
                            break;
                        }
                        if (hl(j, 2) < value - epsilon)
                        {
                            value    = hl(j, 2);
                            accepted = j;
                        }
                        else if (!(j < accepted + patience))
                        {
                            break;
                        }
                    }
                    expected = accepted;
                }
                c.probe(opt_l >= max_rounds ? "longer_history_reaches_the_shorter_budget" : "longer_history_stops_before_the_shorter_budget");
                if (opt_s != expected)
                {
                    c.fail("kept-round-differs-from-monitor",
                           "gboost (trial " + std::to_string(ts) + ", fold " + std::to_string(fold) + ", max_rounds " + std::to_string(max_rounds) +
                               ", patience " + std::to_string(patience) + "): the fold model keeps round " + std::to_string(opt_s) +
                               " but the monitor applied to the history of the same fit with max_rounds " + std::to_string(max_rounds + extra) +
                               " (kept up to round " + std::to_string(opt_l) + ") keeps round " + std::to_string(expected));
                }
            }
        }
    }
    c.dig(result.stats(ml::value_type::errors).m_mean);
}

void run(ctx_t& c)
{
    c.begin_sim(static_cast<int>(c.knob("max_cores", 16)));
    body(c);
    c.end_sim();
}
} // namespace

int main(int argc, char** argv)
{
    return vf::worker_main(argc, argv, "C11", run, [] { vf::warm_factories(); });
}
