// Common code of the simulation harnesses: seeded generators, knobs (overridable workload parameters), the worker
// loop (seed ranges, line protocol towards /verif/check), violation reporting and crash attribution.
#pragma once

#include "../sim/simrt.h"

#include <algorithm>
#include <cinttypes>
#include <csignal>
#include <dirent.h>
#include <cstdint>
#include <cstdio>
#include <cstdlib>
#include <cstring>
#include <exception>
#include <fcntl.h>
#include <functional>
#include <map>
#include <sstream>
#include <stdexcept>
#include <thread>
#include <string>
#include <sys/mman.h>
#include <unistd.h>
#include <vector>

// dynamic annotations of the ThreadSanitizer runtime (absent in the other builds)
extern "C"
{
    void AnnotateIgnoreReadsBegin(const char* file, int line) __attribute__((weak));
    void AnnotateIgnoreReadsEnd(const char* file, int line) __attribute__((weak));
    void AnnotateIgnoreWritesBegin(const char* file, int line) __attribute__((weak));
    void AnnotateIgnoreWritesEnd(const char* file, int line) __attribute__((weak));
}

namespace vf
{
// ---------------------------------------------------------------------------------------------
struct rng_t
{
    uint64_t s{0};

    explicit rng_t(uint64_t seed = 0)
        : s(seed)
    {
    }

    uint64_t next()
    {
        uint64_t z = (s += 0x9e3779b97f4a7c15ULL);
        z          = (z ^ (z >> 30)) * 0xbf58476d1ce4e5b9ULL;
        z          = (z ^ (z >> 27)) * 0x94d049bb133111ebULL;
        return z ^ (z >> 31);
    }

    // uniform integer in [lo, hi]
    int64_t range(int64_t lo, int64_t hi)
    {
        if (hi <= lo)
        {
            return lo;
        }
        return lo + static_cast<int64_t>(next() % static_cast<uint64_t>(hi - lo + 1));
    }

    double unit() { return static_cast<double>(next() >> 11) * (1.0 / 9007199254740992.0); }

    double real(double lo, double hi) { return lo + (hi - lo) * unit(); }

    bool coin(double p = 0.5) { return unit() < p; }

    // small values favoured: geometric-ish over [lo, hi]
    int64_t small(int64_t lo, int64_t hi)
    {
        const double u = unit();
        const double v = u * u * u;
        return lo + static_cast<int64_t>(v * static_cast<double>(hi - lo + 1));
    }

    template <class T>
    const T& pick(const std::vector<T>& v)
    {
        return v[static_cast<size_t>(next() % v.size())];
    }
};

// Harness bookkeeping shared by simulated threads is written without locks (exactly one simulated thread runs at a time).
// A real lock would add happens-before edges between library tasks and hide races of the code under test, so these regions
// are made invisible to ThreadSanitizer instead.
struct tsan_ignore_t
{
    tsan_ignore_t()
    {
        if (AnnotateIgnoreReadsBegin && AnnotateIgnoreWritesBegin)
        {
            AnnotateIgnoreReadsBegin(__FILE__, __LINE__);
            AnnotateIgnoreWritesBegin(__FILE__, __LINE__);
        }
    }

    ~tsan_ignore_t()
    {
        if (AnnotateIgnoreReadsEnd && AnnotateIgnoreWritesEnd)
        {
            AnnotateIgnoreWritesEnd(__FILE__, __LINE__);
            AnnotateIgnoreReadsEnd(__FILE__, __LINE__);
        }
    }

    tsan_ignore_t(const tsan_ignore_t&)            = delete;
    tsan_ignore_t& operator=(const tsan_ignore_t&) = delete;
};

inline uint64_t mix(uint64_t a, uint64_t b)
{
    uint64_t z = a ^ (b + 0x9e3779b97f4a7c15ULL + (a << 6) + (a >> 2));
    z          = (z ^ (z >> 30)) * 0xbf58476d1ce4e5b9ULL;
    z          = (z ^ (z >> 27)) * 0x94d049bb133111ebULL;
    return z ^ (z >> 31);
}

inline std::string jstr(const std::string& s)
{
    std::string o = "\"";
    for (const char c : s)
    {
        switch (c)
        {
        case '"': o += "\\\""; break;
        case '\\': o += "\\\\"; break;
        case '\n': o += "\\n"; break;
        case '\t': o += "\\t"; break;
        case '\r': o += "\\r"; break;
        default:
            if (static_cast<unsigned char>(c) < 0x20)
            {
                char b[8];
                snprintf(b, sizeof(b), "\\u%04x", c);
                o += b;
            }
            else
            {
                o += c;
            }
        }
    }
    return o + "\"";
}

template <class tmap>
std::string jmap(const tmap& m)
{
    std::string o     = "{";
    bool        first = true;
    for (const auto& [k, v] : m)
    {
        if (!first)
        {
            o += ",";
        }
        first = false;
        o += jstr(k) + ":" + std::to_string(v);
    }
    return o + "}";
}

// ---------------------------------------------------------------------------------------------
// per-run context
struct ctx_t
{
    uint64_t                       seed{0};
    rng_t                          wl;     // workload stream
    rng_t                          faults; // workload-level fault stream (throwing operators, non-finite values, ...)
    std::map<std::string, int64_t> overrides;
    std::map<std::string, int64_t> knobs; // values actually used (for samples / replay files)
    std::map<std::string, int64_t> probes;
    std::map<std::string, int64_t> fired; // workload-level fault kinds that fired
    std::vector<uint64_t>          explicit_idx;
    std::vector<int>               explicit_val;
    bool                           explicit_mode{false};
    std::string                    log_path;
    std::string                    vclass; // first violation
    std::string                    vdetail;
    std::string                    sample; // free-form description of the case
    simrt_config                   cfg{};
    simrt_stats                    stats{};
    bool                           sim_on{false};
    bool                           faults_enabled{true};
    uint64_t                       digest{0}; // hash of the observable results of the run (determinism gate)
    // optional per-case accounting for harnesses whose cases are not schedules (fault enumeration over streams, ...):
    uint64_t case_hash{0};        // identity of the case for the "distinct" count (0: use the trace hash)
    bool     case_nontrivial{false};
    int64_t  case_evaluations{0}; // evaluations performed inside this run (0: the run counts as one)

    void dig(uint64_t v) { digest = mix(digest, v); }

    void dig(double v)
    {
        uint64_t u = 0;
        memcpy(&u, &v, sizeof(u));
        dig(u);
    }

    // an overridable workload parameter: the drawn value is ALWAYS drawn (so that the streams stay aligned)
    int64_t knob(const std::string& name, int64_t drawn)
    {
        const auto it = overrides.find(name);
        const auto v  = it == overrides.end() ? drawn : it->second;
        knobs[name]   = v;
        return v;
    }

    void probe(const std::string& name, int64_t n = 1) { probes[name] += n; }

    void fire(const std::string& name, int64_t n = 1) { fired[name] += n; }

    void fail(const std::string& cls, const std::string& detail)
    {
        if (vclass.empty())
        {
            vclass  = cls;
            vdetail = detail;
        }
    }

    bool failed() const { return !vclass.empty(); }

    // choose the simulator configuration for this run (swarm) and start the simulation
    void begin_sim(int max_cores = 16)
    {
        rng_t r(mix(seed, 0x51317));
        // the schedule / fault streams may be re-seeded independently of the workload (used while shrinking a workload)
        simrt_default_config(&cfg, static_cast<uint64_t>(knob("sched_seed", static_cast<int64_t>(seed & 0x7fffffffffffffffULL))));
        // cores: small values favoured, 16 regularly
        static const int core_choices[] = {1, 2, 2, 3, 3, 4, 4, 5, 6, 8, 12, 16, 16};
        int              cores          = core_choices[r.next() % (sizeof(core_choices) / sizeof(int))];
        cores                           = cores > max_cores ? max_cores : cores;
        cfg.cores                       = static_cast<int>(knob("cores", cores));
        cfg.strategy                    = static_cast<int>(knob("strategy", static_cast<int64_t>(r.next() % SIMRT_STRATEGIES)));
        cfg.pct_depth                   = static_cast<int>(knob("pct_depth", r.range(1, 3)));
        static const int lens[]         = {30, 100, 300, 1000, 5000, 30000};
        cfg.pct_length                  = static_cast<int>(knob("pct_length", lens[r.next() % 6]));
        cfg.sticky_max                  = static_cast<int>(knob("sticky_max", 1 + r.small(1, 64)));
        cfg.stall_victim                = static_cast<int>(knob("stall_victim", r.range(0, 6)));
        cfg.stall_from                  = static_cast<int>(knob("stall_from", r.small(0, 400)));
        cfg.stall_len                   = static_cast<int>(knob("stall_len", r.small(10, 2000)));
        // fault mix: a third of the runs fault-free, the others with one or more fault kinds enabled
        const bool f_on      = faults_enabled && knob("sim_faults", r.coin(0.66) ? 1 : 0) != 0;
        const auto spur_ppm  = knob("p_spurious_ppm", f_on && r.coin(0.7) ? r.pick<int64_t>({2000, 10000, 30000, 100000}) : 0);
        const auto eagain_ppm = knob("p_eagain_ppm", f_on && r.coin(0.5) ? r.pick<int64_t>({10000, 50000, 200000}) : 0);
        cfg.p_spurious       = static_cast<double>(spur_ppm) * 1e-6;
        cfg.p_eagain         = static_cast<double>(eagain_ppm) * 1e-6;
        cfg.max_spurious     = static_cast<int>(knob("max_spurious", r.pick<int64_t>({3, 10, 40, 150})));
        cfg.random_victim    = static_cast<int>(knob("random_victim", f_on ? 1 : (r.coin() ? 1 : 0)));
        cfg.clock_jumps      = static_cast<int>(knob("clock_jumps", r.coin(0.3) ? 1 : 0));
        cfg.max_steps        = static_cast<uint64_t>(knob("max_steps", 2000000));
        cfg.log_path         = log_path.empty() ? nullptr : log_path.c_str();
        if (explicit_mode)
        {
            cfg.replay_explicit = 1;
            cfg.replay_idx      = explicit_idx.data();
            cfg.replay_val      = explicit_val.data();
            cfg.replay_len      = explicit_idx.size();
        }
        simrt_begin(&cfg);
        sim_on = true;
    }

    void end_sim()
    {
        if (sim_on)
        {
            stats  = simrt_end();
            sim_on = false;
            if ((stats.diverged & 2) != 0)
            {
                fail("thread-leak", "simulated threads still alive at the end of the run");
            }
        }
    }
};

using run_fn = std::function<void(ctx_t&)>;

// ---------------------------------------------------------------------------------------------
// worker state (process-wide)
struct worker_t
{
    std::string           property;
    std::string           config; // plain / tsan / asan (informational)
    volatile uint64_t*    progress{nullptr};
    ctx_t*                current{nullptr};
    // aggregates since the last S line
    uint64_t                       evals{0};
    uint64_t                       runs{0}, nontrivial{0}, steps{0}, switches{0}, threads{0}, multi{0}, new_states{0};
    uint64_t                       fired[SIMRT_CH_KINDS]{};
    uint64_t                       rprobes[SIMRT_PR_COUNT]{};
    uint64_t                       ops[16]{};
    uint64_t                       clock_ns{0};
    std::map<std::string, int64_t> probes, wfired, strat, cores;
    std::vector<uint64_t>          hashes;
    std::vector<std::string>       samples;
    uint64_t                       max_enabled{0};
};

inline worker_t& W()
{
    static worker_t w;
    return w;
}

inline const char* const* runtime_probe_names()
{
    static const char* const names[SIMRT_PR_COUNT] = {"notify_without_waiter", "wait_after_missed_notify", "mutex_contended",
                                                      "futex_blocked",         "thread_late_start",        "once_contended",
                                                      "preempt_in_condwait",   "join_blocked",             "spurious_wake"};
    return names;
}

inline std::string knobs_json(const ctx_t& c)
{
    return jmap(c.knobs);
}

inline void emit_violation(const ctx_t& c, const std::string& cls, const std::string& detail, uint64_t hash, uint64_t steps)
{
    std::string o = "V {\"seed\":" + std::to_string(c.seed) + ",\"class\":" + jstr(cls) + ",\"detail\":" + jstr(detail) +
                    ",\"hash\":\"" + [&] {
                        char b[32];
                        snprintf(b, sizeof(b), "%016" PRIx64, hash);
                        return std::string(b);
                    }() + "\",\"steps\":" + std::to_string(steps) + ",\"knobs\":" + knobs_json(c) + ",\"sample\":" + jstr(c.sample);
    // decisions so far (for explicit replay / minimisation)
    const uint64_t* idx = nullptr;
    const int*      val = nullptr;
    const size_t    n   = simrt_decisions(&idx, &val);
    o += ",\"ndecisions\":" + std::to_string(n);
    if (n <= 200000)
    {
        o += ",\"decisions\":[";
        for (size_t i = 0; i < n; ++i)
        {
            if (i)
            {
                o += ",";
            }
            o += "[" + std::to_string(idx[i] >> 40) + "," + std::to_string(idx[i] & ((1ULL << 40) - 1)) + "," + std::to_string(val[i]) + "]";
        }
        o += "]";
    }
    o += "}\n";
    fputs(o.c_str(), stdout);
    fflush(stdout);
}

inline void fatal_cb(int reason, const char* detail)
{
    auto& w = W();
    if (w.current != nullptr)
    {
        emit_violation(*w.current, reason == SIMRT_END_DEADLOCK ? "deadlock" : (reason == SIMRT_END_STALL ? "stall" : "stepcap"), detail, 0,
                       simrt_steps());
    }
}

inline void crash_handler(int sig)
{
    auto& w = W();
    if (w.current != nullptr)
    {
        char buf[64];
        snprintf(buf, sizeof(buf), "crash:signal-%d", sig);
        emit_violation(*w.current, buf, "fatal signal inside a simulated run", 0, simrt_steps());
    }
    _exit(5);
}

inline void terminate_handler()
{
    auto&       w    = W();
    std::string what = "std::terminate";
    if (auto e = std::current_exception())
    {
        try
        {
            std::rethrow_exception(e);
        }
        catch (const std::exception& ex)
        {
            what += std::string(": ") + ex.what();
        }
        catch (...)
        {
            what += ": unknown exception";
        }
    }
    if (w.current != nullptr)
    {
        emit_violation(*w.current, "terminate", what, 0, simrt_steps());
    }
    _exit(6);
}

inline void flush_summary(bool final_line)
{
    auto&       w = W();
    std::string o = "S {\"runs\":" + std::to_string(w.runs) + ",\"evals\":" + std::to_string(w.evals) + ",\"nontrivial\":" + std::to_string(w.nontrivial) +
                    ",\"steps\":" + std::to_string(w.steps) + ",\"switches\":" + std::to_string(w.switches) +
                    ",\"threads\":" + std::to_string(w.threads) + ",\"multi_points\":" + std::to_string(w.multi) +
                    ",\"max_enabled\":" + std::to_string(w.max_enabled) + ",\"sim_clock_ns\":" + std::to_string(w.clock_ns);
    static const char* const kinds[SIMRT_CH_KINDS] = {"sched_nondefault", "spurious_wakeup", "notify_victim", "futex_eagain", "timeout"};
    o += ",\"fired\":{";
    for (int k = 0; k < SIMRT_CH_KINDS; ++k)
    {
        o += std::string(k ? "," : "") + jstr(kinds[k]) + ":" + std::to_string(w.fired[k]);
    }
    for (const auto& [k, v] : w.wfired)
    {
        o += "," + jstr(k) + ":" + std::to_string(v);
    }
    o += "},\"probes\":{";
    for (int k = 0; k < SIMRT_PR_COUNT; ++k)
    {
        o += std::string(k ? "," : "") + jstr(std::string("rt_") + runtime_probe_names()[k]) + ":" + std::to_string(w.rprobes[k]);
    }
    for (const auto& [k, v] : w.probes)
    {
        o += "," + jstr(k) + ":" + std::to_string(v);
    }
    o += "},\"strategies\":" + jmap(w.strat) + ",\"cores\":" + jmap(w.cores);
    o += ",\"hashes\":[";
    for (size_t i = 0; i < w.hashes.size(); ++i)
    {
        char b[32];
        snprintf(b, sizeof(b), "%s\"%016" PRIx64 "\"", i ? "," : "", w.hashes[i]);
        o += b;
    }
    o += "],\"states\":[";
    {
        std::vector<uint64_t> buf(4096);
        bool                  first = true;
        for (;;)
        {
            const size_t n = simrt_drain_states(buf.data(), buf.size());
            if (n == 0)
            {
                break;
            }
            for (size_t i = 0; i < n; ++i)
            {
                char b[32];
                snprintf(b, sizeof(b), "%s\"%016" PRIx64 "\"", first ? "" : ",", buf[i]);
                first = false;
                o += b;
            }
        }
    }
    o += "],\"samples\":[";
    for (size_t i = 0; i < w.samples.size(); ++i)
    {
        o += (i ? "," : "") + w.samples[i];
    }
    o += "]";
    o += std::string(",\"final\":") + (final_line ? "true" : "false") + "}\n";
    fputs(o.c_str(), stdout);
    fflush(stdout);
    // reset the deltas
    w.evals = 0;
    w.runs = w.nontrivial = w.steps = w.switches = w.threads = w.multi = w.new_states = w.clock_ns = 0;
    w.max_enabled = 0;
    memset(w.fired, 0, sizeof(w.fired));
    memset(w.rprobes, 0, sizeof(w.rprobes));
    w.probes.clear();
    w.wfired.clear();
    w.strat.clear();
    w.cores.clear();
    w.hashes.clear();
    w.samples.clear();
}

// ml::tune always writes one log file per (trial, fold) under TMPDIR: keep the per-worker scratch directory empty
inline void clean_tmpdir()
{
    const char* tmp = getenv("TMPDIR");
    if (tmp == nullptr || strstr(tmp, "/build/tmp/") == nullptr)
    {
        return; // only ever touch the scratch directory the driver created for this worker
    }
    if (DIR* d = opendir(tmp))
    {
        while (const dirent* e = readdir(d))
        {
            const size_t n = strlen(e->d_name);
            if (n > 4 && strcmp(e->d_name + n - 4, ".log") == 0)
            {
                unlink((std::string(tmp) + "/" + e->d_name).c_str());
            }
        }
        closedir(d);
    }
}

inline bool parse_kv(const char* s, std::string& k, int64_t& v)
{
    const char* eq = strchr(s, '=');
    if (!eq)
    {
        return false;
    }
    k = std::string(s, eq);
    v = strtoll(eq + 1, nullptr, 10);
    return true;
}

// usage: harness --seed0 N --count N [--stride N] [--set k=v]... [--decisions file] [--log path] [--progress file]
//                [--config name] [--flush N] [--verbose] [--no-faults]
inline int worker_main(int argc, char** argv, const char* property, const run_fn& run, const std::function<void()>& warmup = {})
{
    auto& w    = W();
    w.property = property;
    uint64_t                       seed0 = 1, count = 1, stride = 1, flush_every = 2000;
    std::map<std::string, int64_t> overrides;
    std::string                    decisions_path, log_path, progress_path, dump_path;
    bool                           verbose = false, no_faults = false;
    size_t                         max_samples = 3;
    int                            stall_seconds = 60;
    for (int i = 1; i < argc; ++i)
    {
        const std::string a = argv[i];
        const auto        need = [&]() -> const char*
        {
            if (i + 1 >= argc)
            {
                fprintf(stderr, "missing value for %s\n", a.c_str());
                exit(64);
            }
            return argv[++i];
        };
        if (a == "--seed0")
        {
            seed0 = strtoull(need(), nullptr, 10);
        }
        else if (a == "--count")
        {
            count = strtoull(need(), nullptr, 10);
        }
        else if (a == "--stride")
        {
            stride = strtoull(need(), nullptr, 10);
        }
        else if (a == "--flush")
        {
            flush_every = strtoull(need(), nullptr, 10);
        }
        else if (a == "--set")
        {
            std::string k;
            int64_t     v = 0;
            if (!parse_kv(need(), k, v))
            {
                fprintf(stderr, "bad --set\n");
                return 64;
            }
            overrides[k] = v;
        }
        else if (a == "--decisions")
        {
            decisions_path = need();
        }
        else if (a == "--log")
        {
            log_path = need();
        }
        else if (a == "--dump-decisions")
        {
            dump_path = need();
        }
        else if (a == "--progress")
        {
            progress_path = need();
        }
        else if (a == "--config")
        {
            w.config = need();
        }
        else if (a == "--verbose")
        {
            verbose = true;
        }
        else if (a == "--no-faults")
        {
            no_faults = true;
        }
        else if (a == "--stall-seconds")
        {
            stall_seconds = atoi(need());
        }
        else if (a == "--samples")
        {
            max_samples = strtoull(need(), nullptr, 10);
        }
        else
        {
            fprintf(stderr, "unknown argument %s\n", a.c_str());
            return 64;
        }
    }
    std::vector<uint64_t> eidx;
    std::vector<int>      eval;
    bool                  explicit_mode = false;
    if (!decisions_path.empty())
    {
        FILE* f = fopen(decisions_path.c_str(), "r");
        if (!f)
        {
            fprintf(stderr, "cannot open %s\n", decisions_path.c_str());
            return 64;
        }
        unsigned long long tid = 0, k = 0;
        int                v = 0;
        std::vector<std::pair<uint64_t, int>> items;
        while (fscanf(f, "%llu %llu %d", &tid, &k, &v) == 3)
        {
            items.emplace_back((static_cast<uint64_t>(tid) << 40) | k, v);
        }
        fclose(f);
        std::sort(items.begin(), items.end());
        for (const auto& [key, val] : items)
        {
            eidx.push_back(key);
            eval.push_back(val);
        }
        explicit_mode = true;
    }
    if (!progress_path.empty())
    {
        const int fd = open(progress_path.c_str(), O_RDWR | O_CREAT, 0644);
        if (fd >= 0 && ftruncate(fd, 4096) == 0)
        {
            void* p = mmap(nullptr, 4096, PROT_READ | PROT_WRITE, MAP_SHARED, fd, 0);
            if (p != MAP_FAILED)
            {
                w.progress = static_cast<volatile uint64_t*>(p);
            }
        }
    }
    simrt_on_fatal(fatal_cb);
    simrt_watchdog_start(stall_seconds);
    std::set_terminate(terminate_handler);
    for (const int sig : {SIGSEGV, SIGBUS, SIGFPE, SIGILL, SIGABRT})
    {
        // leave SIGSEGV to the sanitizer runtimes when present (they install their own handlers first)
        struct sigaction old
        {
        };
        sigaction(sig, nullptr, &old);
        if (old.sa_handler == SIG_DFL && (old.sa_flags & SA_SIGINFO) == 0)
        {
            signal(sig, crash_handler);
        }
    }

    // warm-up: complete every lazy one-time initialisation (factories, locale, exception machinery) OUTSIDE the
    // simulation, so that a run is the same function of its seed in a fresh process and in the middle of a batch
    {
        // a first thread flips __libc_single_threaded for good: libstdc++ takes its pthread_once / atomic paths only
        // afterwards (e.g. std::locale::classic() initialisation), so it has to happen before the other warm-ups
        std::thread([] {}).join();
        std::ostringstream os;
        os << 1.5 << "warm" << 42;
        std::istringstream is("1 2.5 x");
        int                iv = 0;
        double             dv = 0;
        is >> iv >> dv;
        try
        {
            throw std::runtime_error(os.str());
        }
        catch (const std::exception&)
        {
        }
        if (warmup)
        {
            warmup();
        }
    }

    int rc = 0;
    for (uint64_t n = 0; n < count; ++n)
    {
        const uint64_t seed = seed0 + n * stride;
        ctx_t          c;
        c.seed           = seed;
        c.wl             = rng_t(mix(seed, 0xA11CE));
        c.faults         = rng_t(mix(seed, 0xFA17));
        c.overrides      = overrides;
        c.explicit_mode  = explicit_mode;
        c.explicit_idx   = eidx;
        c.explicit_val   = eval;
        c.log_path       = log_path;
        c.faults_enabled = !no_faults;
        w.current        = &c;
        if (w.progress)
        {
            w.progress[0] = seed;
            w.progress[1] = 1; // in a run
        }
        const int tsan_before = simrt_tsan_reports();
        try
        {
            run(c);
        }
        catch (const std::exception& e)
        {
            c.fail("harness-exception", e.what());
        }
        catch (...)
        {
            c.fail("harness-exception", "unknown");
        }
        if (c.sim_on)
        {
            c.end_sim();
        }
        if (simrt_tsan_reports() != tsan_before)
        {
            // a data race makes everything after it unreliable: it takes precedence over oracle verdicts
            c.vclass  = "tsan-report";
            c.vdetail = std::to_string(simrt_tsan_reports() - tsan_before) + " ThreadSanitizer report(s) in this run (text on stderr)";
        }
        if (w.progress)
        {
            w.progress[1] = 0;
        }
        const auto& s = c.stats;
        if (!dump_path.empty())
        {
            const uint64_t* idx = nullptr;
            const int*      val = nullptr;
            const size_t    nd  = simrt_decisions(&idx, &val);
            if (FILE* f = fopen(dump_path.c_str(), "w"))
            {
                for (size_t i = 0; i < nd; ++i)
                {
                    fprintf(f, "%llu %llu %d\n", (unsigned long long)(idx[i] >> 40), (unsigned long long)(idx[i] & ((1ULL << 40) - 1)), val[i]);
                }
                fclose(f);
            }
        }
        if (c.failed())
        {
            emit_violation(c, c.vclass, c.vdetail, s.trace_hash, s.steps);
            rc = 1;
        }
        // aggregate
        ++w.runs;
        w.evals += c.case_evaluations > 0 ? static_cast<uint64_t>(c.case_evaluations) : 1U;
        const bool nontrivial = c.case_hash != 0 ? c.case_nontrivial : (s.threads >= 2 && s.switches >= 1);
        w.nontrivial += nontrivial ? 1 : 0;
        w.steps += s.steps;
        w.switches += s.switches;
        w.threads += s.threads;
        w.multi += s.multi_points;
        w.clock_ns += s.sim_clock_ns;
        w.max_enabled = std::max(w.max_enabled, s.max_enabled);
        for (int k = 0; k < SIMRT_CH_KINDS; ++k)
        {
            w.fired[k] += s.fired[k];
        }
        for (int k = 0; k < SIMRT_PR_COUNT; ++k)
        {
            w.rprobes[k] += s.probes[k];
        }
        for (const auto& [k, v] : c.probes)
        {
            w.probes[k] += v;
        }
        for (const auto& [k, v] : c.fired)
        {
            w.wfired[k] += v;
        }
        static const char* const strat_names[] = {"uniform", "pct", "sticky", "stall"};
        if (c.knobs.count("strategy"))
        {
            w.strat[strat_names[c.knobs["strategy"] % SIMRT_STRATEGIES]] += 1;
            w.cores[std::to_string(c.knobs["cores"])] += 1;
        }
        if (nontrivial)
        {
            w.hashes.push_back(c.case_hash != 0 ? c.case_hash : s.trace_hash);
        }
        if (w.samples.size() < max_samples && (nontrivial || n + 1 == count))
        {
            char hb[32];
            snprintf(hb, sizeof(hb), "%016" PRIx64, s.trace_hash);
            w.samples.push_back("{\"seed\":" + std::to_string(seed) + ",\"knobs\":" + knobs_json(c) + ",\"case\":" + jstr(c.sample) +
                                ",\"steps\":" + std::to_string(s.steps) + ",\"switches\":" + std::to_string(s.switches) +
                                ",\"threads\":" + std::to_string(s.threads) + ",\"trace_hash\":\"" + hb + "\"}");
        }
        if (verbose)
        {
            printf("R seed=%" PRIu64 " hash=%016" PRIx64 " steps=%" PRIu64 " switches=%" PRIu64 " threads=%" PRIu64
                   " digest=%016" PRIx64 " diverged=%d verdict=%s %s | %s\n",
                   seed, s.trace_hash, s.steps, s.switches, s.threads, c.digest, s.diverged, c.failed() ? c.vclass.c_str() : "ok",
                   c.vdetail.c_str(), c.sample.c_str());
        }
        w.current = nullptr;
        clean_tmpdir();
        if (w.runs >= flush_every)
        {
            flush_summary(false);
        }
    }
    flush_summary(true);
    return rc;
}
} // namespace vf
