// C13 - tuning evaluates grid points once and reports the true best trial.
//  mode A: tuner_t::optimize driven directly with seeded landscapes and injected non-finite values;
//  mode B: ml::tune with its internal thread pool under simulated schedules; the (trial, fold) callbacks record their
//          arguments, yield to the scheduler, and return per-invocation unique tensors; faults (NaN / inf / exception) are
//          attached to one (trial, fold) invocation.
#include "mldata.h"

#include <nano/machine/tune.h>
#include <nano/splitter.h>
#include <nano/tuner.h>

#include <any>
#include <set>

using namespace nano;
using vf::ctx_t;

namespace
{
enum kind : int
{
    K_ENTER = 1, // a = invocation id
    K_LEAVE,     // a = invocation id, b = 0 normal / 1 threw
    K_TUNE_CALL,
    K_TUNE_RET,
};

struct injected_error : std::runtime_error
{
    injected_error()
        : std::runtime_error("injected callback failure")
    {
    }
};

struct landscape_t
{
    int                   kind{0}; // 0 bowl, 1 plateau, 2 ties, 3 corner, 4 noise
    std::vector<double>   center;
    uint64_t              salt{0};

    double operator()(const std::vector<int64_t>& igrid, const std::vector<int64_t>& sizes) const
    {
        double v = 0.0;
        if (igrid.empty())
        {
            return 2.5;
        }
        switch (kind)
        {
        case 0:
            for (size_t i = 0; i < igrid.size(); ++i)
            {
                const auto d = static_cast<double>(igrid[i]) - center[i];
                v += d * d;
            }
            return v + 1.0;
        case 1:
            for (size_t i = 0; i < igrid.size(); ++i)
            {
                const auto d = static_cast<double>(igrid[i]) - center[i];
                v += d * d;
            }
            return std::floor(v / 7.0) + 1.0; // plateaus
        case 2: return 3.0 + static_cast<double>((igrid[0] + (igrid.size() > 1 ? igrid[1] : 0)) % 2); // ties everywhere
        case 3:
            for (size_t i = 0; i < igrid.size(); ++i)
            {
                v += (center[i] < 0.5 * static_cast<double>(sizes[i])) ? static_cast<double>(igrid[i]) : static_cast<double>(sizes[i] - 1 - igrid[i]);
            }
            return v + 0.5; // minimum in a corner
        default:
        {
            uint64_t h = salt;
            for (const auto g : igrid)
            {
                h = vf::mix(h, static_cast<uint64_t>(g));
            }
            return 1.0 + static_cast<double>(h % 1000) / 100.0;
        }
        }
    }
};

struct spaces_t
{
    param_spaces_t                   spaces;
    std::vector<std::vector<double>> grids;
    std::vector<int64_t>             sizes;
};

spaces_t make_spaces(vf::rng_t& r, int64_t nspaces)
{
    spaces_t s;
    for (int64_t i = 0; i < nspaces; ++i)
    {
        const auto n    = r.coin(0.7) ? r.range(2, 9) : r.range(2, 31);
        const bool log10 = r.coin(0.4);
        std::vector<double> grid;
        double v = log10 ? std::pow(10.0, static_cast<double>(r.range(-6, -1))) : r.real(-5.0, 5.0);
        for (int64_t k = 0; k < n; ++k)
        {
            grid.push_back(v);
            v = log10 ? v * r.real(1.5, 10.0) : v + r.real(0.01, 3.0);
        }
        tensor1d_t values(n);
        for (int64_t k = 0; k < n; ++k)
        {
            values(k) = grid[static_cast<size_t>(k)];
        }
        s.spaces.emplace_back("p" + std::to_string(i), log10 ? param_space_t::type::log10 : param_space_t::type::linear, values);
        s.grids.push_back(grid);
        s.sizes.push_back(n);
    }
    return s;
}

landscape_t make_landscape(vf::rng_t& r, const spaces_t& s)
{
    landscape_t l;
    l.kind = static_cast<int>(r.range(0, 4));
    l.salt = r.next();
    for (const auto n : s.sizes)
    {
        l.center.push_back(r.coin(0.3) ? (r.coin() ? 0.0 : static_cast<double>(n - 1)) : r.real(0.0, static_cast<double>(n - 1)));
    }
    return l;
}

// exact grid lookup: every requested value must be one of the grid values, bit for bit
bool to_igrid(const spaces_t& s, const tensor1d_cmap_t& params, std::vector<int64_t>& igrid)
{
    igrid.clear();
    if (params.size() != static_cast<tensor_size_t>(s.grids.size()))
    {
        return false;
    }
    for (size_t i = 0; i < s.grids.size(); ++i)
    {
        int64_t found = -1;
        for (size_t k = 0; k < s.grids[i].size(); ++k)
        {
            if (vf::bits(s.grids[i][k]) == vf::bits(params(static_cast<tensor_size_t>(i))))
            {
                found = static_cast<int64_t>(k);
            }
        }
        if (found < 0)
        {
            return false;
        }
        igrid.push_back(found);
    }
    return true;
}

rtuner_t make_tuner(ctx_t& c, vf::rng_t& r, int64_t& max_evals)
{
    const auto ids = tuner_t::all().ids();
    auto       t   = tuner_t::all().get(ids[static_cast<size_t>(c.knob("tuner", r.range(0, static_cast<int64_t>(ids.size()) - 1)))]);
    max_evals      = c.knob("max_evals", r.coin(0.7) ? r.range(10, 40) : r.range(10, 1000));
    t->parameter("tuner::max_evals") = max_evals;
    return t;
}

double pow3(size_t d)
{
    double v = 1.0;
    for (size_t i = 0; i < d; ++i)
    {
        v *= 3.0;
    }
    return v;
}

// ---------------------------------------------------------------------------------------------
void mode_tuner(ctx_t& c)
{
    auto&      r       = c.wl;
    const auto nspaces = c.knob("spaces", r.range(1, 3));
    const auto s       = make_spaces(r, nspaces);
    const auto land    = make_landscape(r, s);
    int64_t    max_evals = 0;
    const auto tuner   = make_tuner(c, r, max_evals);
    // fault: the k-th evaluated point gets a non-finite value
    const bool inject  = c.faults_enabled && c.knob("inject", c.faults.coin(0.3) ? 1 : 0) != 0;
    const auto bad_at  = c.knob("bad_at", c.faults.small(0, 30));
    const auto bad_kind = c.knob("bad_kind", c.faults.range(0, 2));

    std::map<std::vector<int64_t>, double> seen;
    int64_t                                evals = 0;
    bool                                   injected = false;
    const auto callback = [&](const tensor2d_t& params)
    {
        tensor1d_t values(params.size<0>());
        for (tensor_size_t t = 0; t < params.size<0>(); ++t)
        {
            std::vector<int64_t> igrid;
            if (!to_igrid(s, params.tensor(t), igrid))
            {
                c.fail("off-grid", "the tuner asked for a point that is not on the given grids");
                values(t) = 1.0;
                continue;
            }
            auto v = land(igrid, s.sizes);
            if (seen.count(igrid) != 0U)
            {
                c.fail("repeated-point", "the tuner evaluated the same grid point twice");
            }
            if (inject && evals == bad_at)
            {
                v        = bad_kind == 0 ? std::numeric_limits<double>::quiet_NaN()
                                         : (bad_kind == 1 ? std::numeric_limits<double>::infinity() : -std::numeric_limits<double>::infinity());
                injected = true;
                c.fire(bad_kind == 0 ? "tuner_value_nan" : "tuner_value_inf");
            }
            seen[igrid] = v;
            values(t)   = v;
            ++evals;
        }
        return values;
    };

    std::ostringstream d;
    d << "tuner=" << tuner->type_id() << " max_evals=" << max_evals << " grids=[";
    for (const auto n : s.sizes)
    {
        d << n << " ";
    }
    d << "] landscape=" << land.kind << (inject ? " inject@" + std::to_string(bad_at) : std::string());
    c.sample = d.str();

    // the same tuner OBJECT may have been used before, on the same grids with another landscape: nothing of that run may leak
    // into this one (a remembered point would show up as a missing evaluation or as a value the callback never returned)
    if (r.coin(0.3))
    {
        const auto other = make_landscape(r, s);
        try
        {
            tuner->optimize(
                s.spaces,
                [&](const tensor2d_t& params)
                {
                    tensor1d_t values(params.size<0>());
                    for (tensor_size_t t = 0; t < params.size<0>(); ++t)
                    {
                        std::vector<int64_t> igrid;
                        values(t) = to_igrid(s, params.tensor(t), igrid) ? other(igrid, s.sizes) : 1.0;
                    }
                    return values;
                },
                make_null_logger());
        }
        catch (const std::exception&)
        {
        }
        c.probe("tuner_used_before");
    }
    bool          threw = false;
    tuner_steps_t steps;
    try
    {
        steps = tuner->optimize(s.spaces, callback, make_null_logger());
    }
    catch (const std::exception&)
    {
        threw = true;
    }
    if (injected)
    {
        if (!threw)
        {
            c.fail("non-finite-accepted", "a non-finite evaluation was accepted instead of being rejected with an exception");
        }
        c.probe("nonfinite_rejected");
        return;
    }
    if (threw)
    {
        c.fail("tuner-threw", "optimize threw although every evaluation was finite");
        return;
    }
    if (static_cast<double>(evals) > static_cast<double>(max_evals) + pow3(s.grids.size()))
    {
        c.fail("too-many-evaluations", std::to_string(evals) + " evaluations with max_evals=" + std::to_string(max_evals));
    }
    if (steps.size() != seen.size())
    {
        c.fail("steps-mismatch", "returned " + std::to_string(steps.size()) + " steps for " + std::to_string(seen.size()) + " evaluations");
    }
    double minv = std::numeric_limits<double>::infinity();
    for (const auto& [g, v] : seen)
    {
        minv = std::min(minv, v);
    }
    for (size_t i = 0; i < steps.size(); ++i)
    {
        std::vector<int64_t> igrid(static_cast<size_t>(steps[i].m_igrid.size()));
        for (tensor_size_t k = 0; k < steps[i].m_igrid.size(); ++k)
        {
            igrid[static_cast<size_t>(k)] = steps[i].m_igrid(k);
        }
        const auto it = seen.find(igrid);
        if (it == seen.end() || vf::bits(it->second) != vf::bits(steps[i].m_value))
        {
            c.fail("step-value", "a returned step does not carry the value evaluated at its grid point");
            break;
        }
        std::vector<int64_t> from_param;
        if (!to_igrid(s, steps[i].m_param, from_param) || from_param != igrid)
        {
            c.fail("step-param", "a returned step's parameter values do not match its grid indices");
            break;
        }
        if (i > 0 && steps[i].m_value < steps[i - 1].m_value)
        {
            c.fail("not-sorted", "returned steps are not sorted by value");
            break;
        }
    }
    if (!steps.empty() && steps.front().m_value != minv)
    {
        c.fail("not-minimum", "the first returned step is not the minimum observed");
    }
    if (evals > max_evals)
    {
        c.probe("budget_overshoot_within_allowance");
    }
    c.probe("tuner_direct_runs");
    c.dig(static_cast<uint64_t>(evals));
    c.dig(minv);
}

// ---------------------------------------------------------------------------------------------
struct invocation_t
{
    int64_t              id{0};
    std::vector<int64_t> igrid;
    int64_t              fold{-1}; // some fold with these indices (-1: none); duplicates are resolved through the payload
    uint64_t             th{0}, vh{0};
    bool                 on_grid{true};
    bool                 threw{false};
    double               tr_err_mean{0}, tr_loss_mean{0}, vd_err_mean{0}, vd_loss_mean{0};
    int64_t              tr_n{0}, vd_n{0};
    bool                 poisoned{false};
};

uint64_t hash_indices(const indices_t& v)
{
    uint64_t h = 0x1D;
    for (tensor_size_t i = 0; i < v.size(); ++i)
    {
        h = vf::mix(h, static_cast<uint64_t>(v(i)));
    }
    return h;
}

void mode_tune(ctx_t& c)
{
    auto&      r       = c.wl;
    const auto nspaces = c.knob("spaces", r.range(0, 3));
    const auto s       = make_spaces(r, nspaces);
    const auto land    = make_landscape(r, s);
    int64_t    max_evals = 0;
    auto       tuner   = make_tuner(c, r, max_evals);
    const auto folds   = c.knob("folds", r.coin(0.7) ? r.range(2, 4) : r.range(2, 10));
    const auto nsamp   = c.knob("samples", std::max<int64_t>({folds, 5, r.range(folds, 40)})); // (both parts of every split non-empty)
    const auto sp_ids  = splitter_t::all().ids();
    auto       splitter = splitter_t::all().get(sp_ids[static_cast<size_t>(c.knob("splitter", r.range(0, static_cast<int64_t>(sp_ids.size()) - 1)))]);
    splitter->parameter("splitter::folds") = folds;
    splitter->parameter("splitter::seed")  = r.range(0, 1024);
    const auto max_yields = c.knob("max_yields", 3);

    // distinct, non-contiguous sample indices
    indices_t samples(nsamp);
    {
        int64_t v = r.range(0, 5);
        for (int64_t i = 0; i < nsamp; ++i)
        {
            samples(i) = v;
            v += r.range(1, 4);
        }
    }
    const auto splits = splitter->split(samples);
    if (static_cast<int64_t>(splits.size()) != folds)
    {
        c.probe("splitter_fold_count_differs");
    }
    const auto nfolds = static_cast<int64_t>(splits.size());
    std::vector<uint64_t> tr_hash, vd_hash;
    for (const auto& [tr, vd] : splits)
    {
        tr_hash.push_back(hash_indices(tr));
        vd_hash.push_back(hash_indices(vd));
    }

    // fault attached to the n-th invocation (arrival order is schedule dependent, which is the point)
    const bool inject   = c.faults_enabled && c.knob("inject", c.faults.coin(0.3) ? 1 : 0) != 0;
    const auto bad_at   = c.knob("bad_at", c.faults.small(0, 40));
    const auto bad_kind = c.knob("bad_kind", c.faults.range(0, 3)); // 0 NaN, 1 +inf, 2 -inf, 3 exception

    ml::params_t params;
    params.tuner(*tuner);
    params.splitter(*splitter);

    std::vector<invocation_t> invs;
    invs.reserve(20000);
    int64_t    arrivals = 0;
    bool       injected = false;
    const auto salt     = r.next();

    const ml::tune_callback_t callback = [&](const indices_t& tr, const indices_t& vd, tensor1d_cmap_t p, const std::any&, const logger_t&)
    {
        // exactly one simulated thread runs at a time: the harness' own bookkeeping needs no lock (and is hidden from TSan)
        const vf::tsan_ignore_t ignore;
        const auto              id = static_cast<int64_t>(invs.size());
        invs.emplace_back();
        invs.back().id = id;
        simrt_record(K_ENTER, id, 0, 0, 0);
        {
            auto& inv   = invs[static_cast<size_t>(id)];
            inv.on_grid = to_igrid(s, p, inv.igrid);
            inv.th = hash_indices(tr);
            inv.vh = hash_indices(vd);
            for (int64_t f = 0; f < nfolds; ++f)
            {
                if (tr_hash[static_cast<size_t>(f)] == inv.th && vd_hash[static_cast<size_t>(f)] == inv.vh)
                {
                    inv.fold = f;
                }
            }
        }
        const auto my_arrival = arrivals++;
        uint64_t   h          = vf::mix(salt, static_cast<uint64_t>(id));
        for (int64_t y = 0, n = static_cast<int64_t>(h % static_cast<uint64_t>(max_yields + 1)); y < n; ++y)
        {
            simrt_yield("tune-callback");
        }
        auto&        inv  = invs[static_cast<size_t>(id)]; // (the vector never reallocates: reserved)
        const double base = inv.on_grid ? land(inv.igrid, s.sizes) : 1.0;
        tensor2d_t   trv(2, tr.size()), vdv(2, vd.size());
        const auto   fill = [&](tensor2d_t& t, double& err_mean, double& loss_mean, uint64_t tag)
        {
            double se = 0, sl = 0;
            for (tensor_size_t i = 0; i < t.size<1>(); ++i)
            {
                h          = vf::mix(h, tag + static_cast<uint64_t>(i));
                const auto e = base + 1e-3 * static_cast<double>(h % 1000) + 1e-4 * static_cast<double>(inv.fold + 1);
                const auto l = 2.0 * base + 1e-3 * static_cast<double>((h >> 20) % 1000);
                t(0, i)    = e;
                t(1, i)    = l;
                se += e;
                sl += l;
            }
            err_mean  = t.size<1>() > 0 ? se / static_cast<double>(t.size<1>()) : 0.0;
            loss_mean = t.size<1>() > 0 ? sl / static_cast<double>(t.size<1>()) : 0.0;
        };
        fill(trv, inv.tr_err_mean, inv.tr_loss_mean, 0x7000);
        fill(vdv, inv.vd_err_mean, inv.vd_loss_mean, 0x9000);
        inv.tr_n = tr.size();
        inv.vd_n = vd.size();
        if (inject && my_arrival == bad_at)
        {
            injected     = true;
            inv.poisoned = true;
            if (bad_kind == 3)
            {
                c.fire("callback_exception");
                inv.threw = true;
                simrt_record(K_LEAVE, id, 1, 0, 0);
                throw injected_error();
            }
            c.fire(bad_kind == 0 ? "callback_value_nan" : "callback_value_inf");
            if (vdv.size<1>() > 0)
            {
                vdv(0, 0) = bad_kind == 0 ? std::numeric_limits<double>::quiet_NaN()
                                          : (bad_kind == 1 ? std::numeric_limits<double>::infinity() : -std::numeric_limits<double>::infinity());
            }
        }
        simrt_record(K_LEAVE, id, 0, 0, 0);
        return std::make_tuple(std::move(trv), std::move(vdv), std::any(id));
    };

    std::ostringstream d;
    d << "ml::tune tuner=" << tuner->type_id() << " max_evals=" << max_evals << " splitter=" << splitter->type_id() << " folds=" << folds
      << " samples=" << nsamp << " grids=[";
    for (const auto n : s.sizes)
    {
        d << n << " ";
    }
    d << "] landscape=" << land.kind << " cores=" << c.cfg.cores
      << (inject ? " inject(kind " + std::to_string(bad_kind) + ")@arrival" + std::to_string(bad_at) : std::string());
    c.sample = d.str();

    simrt_record(K_TUNE_CALL, 0, 0, 0, 0);
    bool         threw = false, threw_injected = false;
    ml::result_t result;
    try
    {
        result = ml::tune("c13", samples, params, s.spaces, callback);
    }
    catch (const injected_error&)
    {
        threw = threw_injected = true;
    }
    catch (const std::exception&)
    {
        threw = true;
    }
    simrt_record(K_TUNE_RET, 0, 0, 0, 0);

    // --- history: every callback finished before tune returned / unwound
    {
        size_t     nrec = 0;
        const auto* rec = simrt_records(&nrec);
        uint64_t   ret_seq = 0;
        std::map<int64_t, int> open;
        for (size_t i = 0; i < nrec; ++i)
        {
            if (rec[i].kind == K_ENTER)
            {
                open[rec[i].a]++;
            }
            else if (rec[i].kind == K_LEAVE)
            {
                open[rec[i].a]--;
            }
            else if (rec[i].kind == K_TUNE_RET)
            {
                ret_seq = rec[i].seq;
                for (const auto& [id, n] : open)
                {
                    if (n != 0)
                    {
                        c.fail("task-still-running", "ml::tune returned / unwound while callback " + std::to_string(id) + " was still running");
                    }
                }
            }
            else if (ret_seq != 0 && (rec[i].kind == K_ENTER || rec[i].kind == K_LEAVE))
            {
                c.fail("task-still-running", "a callback ran after ml::tune returned");
            }
        }
        // concurrency probe: two callbacks overlapped in time
        std::map<int64_t, uint64_t> enter;
        int                         running = 0, max_running = 0;
        for (size_t i = 0; i < nrec; ++i)
        {
            if (rec[i].kind == K_ENTER)
            {
                max_running = std::max(max_running, ++running);
            }
            else if (rec[i].kind == K_LEAVE)
            {
                --running;
            }
        }
        if (max_running >= 2)
        {
            c.probe("callbacks_overlapped_in_time");
        }
        if (max_running >= 4)
        {
            c.probe("four_or_more_callbacks_in_flight");
        }
    }

    // --- per invocation checks: exactly one invocation per (trial, fold), with that fold's indices. The random splitter may
    // produce identical splits for two folds, so folds are matched as multisets of (training, validation) index lists.
    std::map<std::vector<int64_t>, std::vector<int64_t>> points;
    for (const auto& inv : invs)
    {
        if (!inv.on_grid)
        {
            c.fail("off-grid", "the driver asked for a parameter vector that is not on the given grids");
        }
        if (inv.fold < 0)
        {
            c.fail("wrong-fold-indices", "callback " + std::to_string(inv.id) + " received (training, validation) indices that are no fold of the splitter");
        }
        points[inv.igrid].push_back(inv.id);
    }
    std::multiset<std::pair<uint64_t, uint64_t>> split_keys;
    for (int64_t f = 0; f < nfolds; ++f)
    {
        split_keys.emplace(tr_hash[static_cast<size_t>(f)], vd_hash[static_cast<size_t>(f)]);
    }
    for (const auto& [point, ids] : points)
    {
        std::multiset<std::pair<uint64_t, uint64_t>> keys;
        for (const auto id : ids)
        {
            keys.emplace(invs[static_cast<size_t>(id)].th, invs[static_cast<size_t>(id)].vh);
        }
        for (const auto& key : keys)
        {
            if (keys.count(key) > split_keys.count(key))
            {
                c.fail("repeated-invocation", "the callback ran more than once for one (trial, fold)");
                break;
            }
        }
        if (!injected && !threw && keys.size() < split_keys.size() && !c.failed())
        {
            c.fail("missing-invocation", "a requested trial was evaluated on " + std::to_string(keys.size()) + " of " + std::to_string(nfolds) + " folds");
        }
    }


    if (injected)
    {
        // without parameter spaces no tuner is involved and the statement demands no rejection of non-finite values
        const bool must_throw = bad_kind == 3 || nspaces > 0;
        if (!threw && must_throw)
        {
            c.fail(bad_kind == 3 ? "exception-lost" : "non-finite-accepted",
                   bad_kind == 3 ? "an exception thrown by a (trial, fold) callback did not reach the caller of ml::tune"
                                 : "a non-finite validation error was accepted instead of being rejected with an exception");
        }
        else if (bad_kind == 3 && !threw_injected)
        {
            c.probe("exception_replaced_by_another");
        }
        c.probe(bad_kind == 3 ? "callback_exception_propagated" : "callback_nonfinite_rejected");
        c.dig(static_cast<uint64_t>(invs.size()));
        return;
    }
    if (threw)
    {
        c.fail("tune-threw", "ml::tune threw although every callback returned finite values");
        return;
    }
    if (c.failed())
    {
        return;
    }

    if (static_cast<double>(points.size()) > static_cast<double>(max_evals) + pow3(s.grids.size()))
    {
        c.fail("too-many-evaluations", std::to_string(points.size()) + " trials with max_evals=" + std::to_string(max_evals));
    }
    if (result.trials() != static_cast<tensor_size_t>(points.size()) || result.folds() != nfolds)
    {
        c.fail("result-shape", "result has " + std::to_string(result.trials()) + " trials x " + std::to_string(result.folds()) + " folds, expected " +
                                   std::to_string(points.size()) + " x " + std::to_string(nfolds));
        return;
    }
    // stored statistics and payload per (trial, fold)
    std::vector<double> trial_value(static_cast<size_t>(result.trials()), 0.0);
    std::set<int64_t>   used;
    for (tensor_size_t trial = 0; trial < result.trials() && !c.failed(); ++trial)
    {
        std::vector<int64_t> igrid;
        if (!to_igrid(s, result.params(trial), igrid))
        {
            c.fail("result-params", "stored trial parameters are not on the grid");
            break;
        }
        for (int64_t f = 0; f < nfolds; ++f)
        {
            const auto* pid = std::any_cast<int64_t>(&result.extra(trial, f));
            if (pid == nullptr || *pid < 0 || *pid >= static_cast<int64_t>(invs.size()))
            {
                c.fail("wrong-slot-extra", "result.extra(" + std::to_string(trial) + "," + std::to_string(f) + ") is not a payload returned by the callback");
                break;
            }
            const auto& inv = invs[static_cast<size_t>(*pid)];
            if (inv.igrid != igrid || inv.th != tr_hash[static_cast<size_t>(f)] || inv.vh != vd_hash[static_cast<size_t>(f)] || !used.insert(*pid).second)
            {
                c.fail("wrong-slot-extra", "result.extra(" + std::to_string(trial) + "," + std::to_string(f) +
                                               ") is the payload of another (trial, fold) invocation");
                break;
            }
            const auto chk = [&](ml::split_type sp, ml::value_type vt, double expect, int64_t n, const char* what)
            {
                const auto st = result.stats(trial, f, sp, vt);
                if (!vf::close(st.m_mean, expect, 1e-12, 1e-15) || static_cast<int64_t>(st.m_count) != n)
                {
                    c.fail("wrong-slot-stats", std::string("result.stats(") + std::to_string(trial) + "," + std::to_string(f) + "," + what +
                                                   ") is not the statistics of what that (trial, fold) invocation returned: mean " +
                                                   std::to_string(st.m_mean) + " vs " + std::to_string(expect));
                }
            };
            chk(ml::split_type::train, ml::value_type::errors, inv.tr_err_mean, inv.tr_n, "train,errors");
            chk(ml::split_type::train, ml::value_type::losses, inv.tr_loss_mean, inv.tr_n, "train,losses");
            chk(ml::split_type::valid, ml::value_type::errors, inv.vd_err_mean, inv.vd_n, "valid,errors");
            chk(ml::split_type::valid, ml::value_type::losses, inv.vd_loss_mean, inv.vd_n, "valid,losses");
            trial_value[static_cast<size_t>(trial)] += inv.vd_err_mean / static_cast<double>(nfolds);
        }
    }
    if (!c.failed())
    {
        double best = std::numeric_limits<double>::infinity();
        for (const auto v : trial_value)
        {
            best = std::min(best, v);
        }
        const auto opt = result.optimum_trial();
        if (opt < 0 || opt >= result.trials() || trial_value[static_cast<size_t>(opt)] > best + 1e-12 * std::fabs(best))
        {
            c.fail("wrong-optimum", "optimum_trial() = " + std::to_string(opt) + " with mean validation error " +
                                        std::to_string(opt >= 0 && opt < result.trials() ? trial_value[static_cast<size_t>(opt)] : -1.0) +
                                        " but the smallest is " + std::to_string(best));
        }
        for (tensor_size_t trial = 0; trial < result.trials(); ++trial)
        {
            if (!vf::close(result.value(trial), trial_value[static_cast<size_t>(trial)], 1e-12, 1e-15))
            {
                c.fail("wrong-trial-value", "result.value(trial) is not the mean validation error across folds");
                break;
            }
        }
    }
    c.probe("tune_runs");
    if (points.size() >= 2)
    {
        c.probe("tune_with_several_trials");
    }
    c.dig(static_cast<uint64_t>(invs.size()));
    c.dig(static_cast<uint64_t>(result.optimum_trial()));
}

void run(ctx_t& c)
{
    const auto mode = c.knob("mode", c.wl.coin(0.25) ? 0 : 1);
    if (mode == 0)
    {
        c.overrides["cores"] = 1;
    }
    c.begin_sim(static_cast<int>(c.knob("max_cores", 16)));
    if (mode == 0)
    {
        mode_tuner(c);
    }
    else
    {
        mode_tune(c);
    }
    c.end_sim();
}
} // namespace

int main(int argc, char** argv)
{
    return vf::worker_main(argc, argv, "C13", run,
                           []
                           {
                               vf::warm_factories();
                               std::any a(int64_t{1});
                               (void)std::any_cast<int64_t>(&a);
                           });
}
