// C08 - dataset views agree with the stored values (iterators, drop/shuffle histories, threads).
// One run = a seeded data source (all storage types, structured dims, 1-300 classes, arbitrary masks, any / absent target), a
// stack of generators (the four identity generators - possibly restricted to feature subsets - and the pairwise product), a
// dataset pool of 1-16 workers, and a HISTORY of operations: direct flatten / targets / select with index lists that repeat,
// reverse and touch N-1; flatten / targets / select iterators through the pool (callbacks yield to the scheduler before they
// read the per-thread buffer they were handed); drop(f), shuffle(f) (entropy seam), reset; boundary probes (index N, -1,
// feature F, -1). A small reference model (stored values + drop set + reported permutations) decides every view.
#include "mldata.h"

#include <nano/generator/elemwise_gradient.h>
#include <nano/generator/pairwise_product.h>

#include <set>

using namespace nano;
using vf::ctx_t;
using vrng = vf::rng_t;

namespace
{
constexpr double NaN = std::numeric_limits<double>::quiet_NaN();

struct gfeature_t
{
    int  kind{0};       // 0 sclass, 1 mclass, 2 scalar, 3 struct, 4 product, 5 opaque (reference = the direct view captured at the start)
    int  src1{-1};      // schema index of the (first) source
    int  src2{-1};      // schema index of the second source (product)
    tensor_size_t classes{0};
    tensor_size_t size{1}; // number of values per sample (struct: d0*d1*d2; mclass: classes)
    tensor_size_t columns{0};
};

struct model_t
{
    const vf::sim_datasource_t*       source{nullptr};
    std::vector<gfeature_t>           features; // dataset feature order
    std::set<tensor_size_t>           dropped;
    std::map<tensor_size_t, indices_t> perms;   // feature -> permutation of all samples (as reported)
    std::map<tensor_size_t, std::vector<std::vector<double>>> opaque; // feature -> per sample values of the initial direct view
    tensor_size_t                     columns{0};

    tensor_size_t src_sample(tensor_size_t f, tensor_size_t s) const
    {
        const auto it = perms.find(f);
        return it == perms.end() ? s : it->second(s);
    }

    // values of dataset feature f for sample s (empty = missing)
    std::vector<double> values(tensor_size_t f, tensor_size_t s) const
    {
        if (dropped.count(f) != 0U)
        {
            return {};
        }
        const auto& g   = features[static_cast<size_t>(f)];
        const auto  src = static_cast<size_t>(src_sample(f, s));
        const auto& st  = source->stored();
        if (g.kind == 5 || g.kind == 6)
        {
            return opaque.at(f)[src];
        }
        if (g.kind == 4)
        {
            const auto& a = st[static_cast<size_t>(g.src1)][src];
            const auto& b = st[static_cast<size_t>(g.src2)][src];
            if (a.empty() || b.empty())
            {
                return {};
            }
            return {a[0] * b[0]};
        }
        return st[static_cast<size_t>(g.src1)][src];
    }

    // dense encoding of one sample: columns of all features
    void flatten_row(tensor_size_t s, std::vector<double>& row) const
    {
        row.clear();
        for (tensor_size_t f = 0; f < static_cast<tensor_size_t>(features.size()); ++f)
        {
            const auto& g = features[static_cast<size_t>(f)];
            const auto  v = values(f, s);
            if (v.empty())
            {
                row.insert(row.end(), static_cast<size_t>(g.columns), NaN);
                continue;
            }
            switch (g.kind)
            {
            case 0: // one-hot +-1 with C-1 columns
                for (tensor_size_t c = 0; c + 1 < g.classes; ++c)
                {
                    row.push_back(static_cast<tensor_size_t>(v[0]) == c ? +1.0 : -1.0);
                }
                break;
            case 1: // 2 * hit - 1
                for (const auto h : v)
                {
                    row.push_back(2.0 * h - 1.0);
                }
                break;
            default: row.insert(row.end(), v.begin(), v.end()); break;
            }
        }
    }
};

bool same_value(double got, double want)
{
    return (std::isnan(got) && std::isnan(want)) || got == want;
}

std::string describe(const indices_t& samples)
{
    std::ostringstream o;
    o << "[";
    for (tensor_size_t i = 0; i < std::min<tensor_size_t>(samples.size(), 8); ++i)
    {
        o << samples(i) << " ";
    }
    o << (samples.size() > 8 ? "...]" : "]") << "(" << samples.size() << ")";
    return o.str();
}

indices_t index_list(vrng& r, tensor_size_t total)
{
    const auto mode = r.range(0, 4);
    if (mode == 0)
    {
        return arange(0, total);
    }
    const auto n = r.range(1, total + (mode == 3 ? 5 : 0));
    indices_t  s(n);
    for (tensor_size_t i = 0; i < n; ++i)
    {
        s(i) = r.coin(0.15) ? total - 1 : r.range(0, total - 1);
    }
    if (mode == 2)
    {
        std::sort(std::begin(s), std::end(s));
        std::reverse(std::begin(s), std::end(s));
    }
    return s;
}

struct checker_t
{
    ctx_t&           c;
    const dataset_t& dataset;
    const model_t&   model;
    tensor_size_t    tsize;
    int              target_kind; // -1 none, 0 sclass, 1 mclass, 2 values
    tensor_size_t    target_classes;
    size_t           target_schema;

    void check_flatten_rows(const indices_t& samples, tensor_size_t begin, const tensor2d_cmap_t& got, const char* what)
    {
        std::vector<double> row;
        if (got.size<1>() != model.columns)
        {
            c.fail("flatten-shape", std::string(what) + ": " + std::to_string(got.size<1>()) + " columns, expected " + std::to_string(model.columns));
            return;
        }
        for (tensor_size_t i = 0; i < got.size<0>() && !c.failed(); ++i)
        {
            model.flatten_row(samples(begin + i), row);
            for (tensor_size_t k = 0; k < model.columns; ++k)
            {
                if (!same_value(got(i, k), row[static_cast<size_t>(k)]))
                {
                    c.fail("flatten-differs", std::string(what) + ": sample " + std::to_string(samples(begin + i)) + " column " + std::to_string(k) +
                                                  " (feature " + std::to_string(dataset.column2feature(k)) + ") is " + std::to_string(got(i, k)) +
                                                  ", stored values give " + std::to_string(row[static_cast<size_t>(k)]) + "; samples " + describe(samples));
                    break;
                }
            }
        }
    }

    void check_targets_rows(const indices_t& samples, tensor_size_t begin, const tensor4d_cmap_t& got, const char* what)
    {
        const auto& st = model.source->stored()[target_schema];
        for (tensor_size_t i = 0; i < got.size<0>() && !c.failed(); ++i)
        {
            const auto& v = st[static_cast<size_t>(samples(begin + i))];
            for (tensor_size_t k = 0; k < tsize; ++k)
            {
                double want = NaN;
                if (!v.empty())
                {
                    want = target_kind == 0 ? (static_cast<tensor_size_t>(v[0]) == k ? +1.0 : -1.0)
                                            : (target_kind == 1 ? 2.0 * v[static_cast<size_t>(k)] - 1.0 : v[static_cast<size_t>(k)]);
                }
                if (!same_value(got(i * tsize + k), want))
                {
                    c.fail("targets-differ", std::string(what) + ": sample " + std::to_string(samples(begin + i)) + " output " + std::to_string(k) + " is " +
                                                 std::to_string(got(i * tsize + k)) + ", stored target gives " + std::to_string(want));
                    break;
                }
            }
        }
    }

    template <class tvalues>
    void check_select(const indices_t& samples, tensor_size_t f, const tvalues& got, const char* what)
    {
        const auto& g = model.features[static_cast<size_t>(f)];
        for (tensor_size_t i = 0; i < samples.size() && !c.failed(); ++i)
        {
            const auto v = model.values(f, samples(i));
            const auto n = g.kind == 0 || g.kind == 2 || g.kind == 4 || g.kind == 6 ? 1 : g.size;
            // an opaque (generated) feature with a missing source is all-NaN, which the model keeps as such
            for (tensor_size_t k = 0; k < n; ++k)
            {
                const auto   x    = static_cast<double>(got(i * n + k));
                const double want = v.empty() ? ((g.kind == 0 || g.kind == 1) ? -1.0 : NaN) : v[static_cast<size_t>(k)];
                if (!same_value(x, want))
                {
                    c.fail("select-differs", std::string(what) + ": feature " + std::to_string(f) + " sample " + std::to_string(samples(i)) + " value " +
                                                 std::to_string(k) + " is " + std::to_string(x) + ", stored value gives " + std::to_string(want));
                    break;
                }
            }
        }
    }

    void direct_select(const indices_t& samples, tensor_size_t f)
    {
        const auto& g = model.features[static_cast<size_t>(f)];
        switch (g.kind)
        {
        case 0:
        {
            sclass_mem_t b;
            check_select(samples, f, dataset.select(samples, f, b), "select(sclass)");
            break;
        }
        case 1:
        {
            mclass_mem_t b;
            check_select(samples, f, dataset.select(samples, f, b), "select(mclass)");
            break;
        }
        case 3:
        case 5:
        {
            struct_mem_t b;
            check_select(samples, f, dataset.select(samples, f, b), g.kind == 3 ? "select(struct)" : "select(gradient)");
            break;
        }
        default:
        {
            scalar_mem_t b;
            check_select(samples, f, dataset.select(samples, f, b), "select(scalar)");
            break;
        }
        }
    }
};

void body(ctx_t& c)
{
    auto& r = c.wl;
    vf::schema_opts_t o;
    o.min_features      = 1;
    o.max_features      = 12;
    o.min_samples       = 1;
    o.max_samples       = static_cast<int>(c.knob("max_samples", r.coin(0.8) ? 40 : 200));
    o.all_storage_types = true;
    o.max_classes       = r.coin(0.1) ? 300 : 7;
    o.target_kind       = -1;
    o.image_structs     = r.coin(0.4);
    const auto schema   = vf::random_schema(r, o);
    auto       source   = vf::sim_datasource_t(schema, r.next(), r.coin(0.3) ? 0.0 : r.real(0.05, 0.6), true, 0); // (the library requires the target of every sample)
    source.load();
    const auto pool    = c.knob("pool", r.coin(0.5) ? r.range(1, 4) : r.range(1, 16));
    auto       dataset = dataset_t{source, static_cast<size_t>(pool)};
    const auto total   = dataset.samples();
    const auto inputs  = source.features();

    // generator stack: identity generators (all features or a subset), optionally the pairwise product
    std::string stack;
    const auto  subset = [&]()
    {
        std::vector<tensor_size_t> v;
        for (tensor_size_t i = 0; i < inputs; ++i)
        {
            if (r.coin(0.6))
            {
                v.push_back(i);
            }
        }
        indices_t s(static_cast<tensor_size_t>(v.size()));
        std::copy(v.begin(), v.end(), std::begin(s));
        return s;
    };
    for (int g = 0; g < 4; ++g)
    {
        if (r.coin(0.15))
        {
            continue;
        }
        const bool all = r.coin(0.6);
        stack += std::string(g == 0 ? "sclass" : g == 1 ? "mclass" : g == 2 ? "scalar" : "struct") + (all ? " " : "[subset] ");
        switch (g)
        {
        case 0: all ? dataset.add<sclass_identity_generator_t>() : dataset.add<sclass_identity_generator_t>(subset()); break;
        case 1: all ? dataset.add<mclass_identity_generator_t>() : dataset.add<mclass_identity_generator_t>(subset()); break;
        case 2: all ? dataset.add<scalar_identity_generator_t>() : dataset.add<scalar_identity_generator_t>(subset()); break;
        default: all ? dataset.add<struct_identity_generator_t>() : dataset.add<struct_identity_generator_t>(subset()); break;
        }
    }
    if (r.coin(0.4))
    {
        stack += "product ";
        dataset.add<pairwise_product_generator_t>();
    }
    if (o.image_structs && r.coin(0.6))
    {
        // decided by the iterator-vs-direct differential only: the reference is the direct view captured before the history
        stack += "gradient ";
        dataset.add<gradient_generator_t>();
    }

    // reference model: dataset features are recognised by name (identity keeps the source descriptor, product names its pair)
    model_t model;
    model.source = &source;
    std::map<std::string, int> by_name;
    for (size_t k = 0; k < schema.features.size(); ++k)
    {
        by_name[schema.features[k].name()] = static_cast<int>(k);
    }
    for (tensor_size_t f = 0; f < dataset.features(); ++f)
    {
        const auto feature = dataset.feature(f);
        gfeature_t g;
        const auto name = feature.name();
        if (name.rfind("product(", 0) == 0)
        {
            const auto comma = name.find(',');
            g.kind           = 4;
            g.src1           = by_name.at(name.substr(8, comma - 8));
            g.src2           = by_name.at(name.substr(comma + 1, name.size() - comma - 2));
            g.columns        = 1;
        }
        else
        {
            const auto it = by_name.find(name);
            if (it == by_name.end() && (feature.is_struct() || feature.is_scalar()))
            {
                // generated feature without an independent reference encoder (gradient): capture its direct view now
                // (a 3x3 image leaves a single gradient value: that feature is a scalar one)
                g.kind    = feature.is_struct() ? 5 : 6;
                g.size    = ::nano::size(feature.dims());
                g.columns = g.size;
                const auto all   = arange(0, total);
                auto&      table = model.opaque[f];
                table.resize(static_cast<size_t>(total));
                if (feature.is_struct())
                {
                    struct_mem_t b;
                    const auto   v = dataset.select(all, f, b);
                    for (tensor_size_t sidx = 0; sidx < total; ++sidx)
                    {
                        for (tensor_size_t k = 0; k < g.size; ++k)
                        {
                            table[static_cast<size_t>(sidx)].push_back(v(sidx * g.size + k));
                        }
                    }
                }
                else
                {
                    scalar_mem_t b;
                    const auto   v = dataset.select(all, f, b);
                    for (tensor_size_t sidx = 0; sidx < total; ++sidx)
                    {
                        table[static_cast<size_t>(sidx)].push_back(v(sidx));
                    }
                }
                model.features.push_back(g);
                model.columns += g.columns;
                c.probe("gradient_features");
                continue;
            }
            if (it == by_name.end())
            {
                c.fail("bookkeeping", "dataset feature '" + name + "' does not correspond to a stored feature");
                return;
            }
            g.src1          = it->second;
            const auto& sf  = schema.features[static_cast<size_t>(g.src1)];
            if (feature != sf)
            {
                c.fail("bookkeeping", "identity feature '" + name + "' has another descriptor than the stored feature");
                return;
            }
            g.kind    = sf.is_sclass() ? 0 : sf.is_mclass() ? 1 : sf.is_scalar() ? 2 : 3;
            g.classes = sf.classes();
            g.size    = g.kind == 1 ? sf.classes() : ::nano::size(sf.dims());
            g.columns = g.kind == 0 ? sf.classes() - 1 : g.kind == 1 ? sf.classes() : ::nano::size(sf.dims());
        }
        model.features.push_back(g);
        model.columns += g.columns;
    }
    // bookkeeping: counts and the column -> feature map
    if (dataset.columns() != model.columns)
    {
        c.fail("bookkeeping", "columns() = " + std::to_string(dataset.columns()) + " but the features add up to " + std::to_string(model.columns));
        return;
    }
    {
        tensor_size_t col = 0;
        for (tensor_size_t f = 0; f < dataset.features() && !c.failed(); ++f)
        {
            for (tensor_size_t k = 0; k < model.features[static_cast<size_t>(f)].columns; ++k, ++col)
            {
                if (dataset.column2feature(col) != f)
                {
                    c.fail("bookkeeping", "column2feature(" + std::to_string(col) + ") = " + std::to_string(dataset.column2feature(col)) + ", expected " +
                                              std::to_string(f));
                    break;
                }
            }
        }
    }
    const bool has_target = schema.target != std::string::npos;
    checker_t  chk{c, dataset, model, has_target ? ::nano::size(dataset.target_dims()) : 0, -1, 0, has_target ? schema.target : 0};
    if (has_target)
    {
        const auto& tf     = schema.features[schema.target];
        chk.target_kind    = tf.is_sclass() ? 0 : tf.is_mclass() ? 1 : 2;
        chk.target_classes = tf.classes();
        if (dataset.target() != tf)
        {
            c.fail("bookkeeping", "target descriptor differs from the stored target feature");
        }
    }
    const auto nfeat = dataset.features();
    const auto nops  = c.knob("ops", r.range(3, 12));
    std::ostringstream d;
    d << "samples=" << total << " inputs=" << inputs << " target=" << (has_target ? schema.features[schema.target].name() : "none") << " stack=[" << stack
      << "] features=" << nfeat << " columns=" << model.columns << " pool=" << dataset.concurrency() << " cores=" << c.cfg.cores << " history=[";

    for (int64_t op = 0; op < nops && !c.failed(); ++op)
    {
        const auto kind = r.range(0, 11);
        switch (kind)
        {
        case 0:
        case 1:
        {
            const auto samples = index_list(r, total);
            d << "flatten" << samples.size() << " ";
            tensor2d_t b;
            chk.check_flatten_rows(samples, 0, dataset.flatten(samples, b), "flatten");
            c.probe("op_direct_flatten");
            break;
        }
        case 2:
        {
            const auto samples = index_list(r, total);
            d << "targets" << samples.size() << " ";
            tensor4d_t b;
            if (has_target)
            {
                chk.check_targets_rows(samples, 0, dataset.targets(samples, b), "targets");
                c.probe("op_direct_targets");
            }
            else
            {
                bool threw = false;
                try
                {
                    dataset.targets(samples, b);
                }
                catch (const std::exception&)
                {
                    threw = true;
                }
                if (!threw)
                {
                    c.fail("targets-without-target", "targets() of an unsupervised dataset did not throw");
                }
            }
            break;
        }
        case 3:
        {
            if (nfeat == 0)
            {
                break;
            }
            const auto samples = index_list(r, total);
            const auto f       = r.range(0, nfeat - 1);
            d << "select(f" << f << ")" << samples.size() << " ";
            chk.direct_select(samples, f);
            c.probe("op_direct_select");
            break;
        }
        case 4:
        case 5:
        {
            // flatten (+targets) iterator through the pool; the callback yields BEFORE reading the buffer it was handed
            const auto samples = index_list(r, total);
            const auto batch   = r.coin(0.7) ? r.range(1, 10) : r.range(1, total + 1);
            const bool cache   = r.coin(0.3);
            d << "iter-flatten" << samples.size() << "/b" << batch << (cache ? "/cached " : " ");
            auto iterator = flatten_iterator_t{dataset, samples};
            iterator.batch(batch);
            iterator.scaling(scaling_type::none);
            // NB: scaling 'none' still maps missing values to zero in the iterator's output (statistics are C14's business):
            // the comparison treats 0 as the image of NaN
            if (cache)
            {
                iterator.cache_flatten(std::numeric_limits<tensor_size_t>::max());
                if (has_target)
                {
                    iterator.cache_targets(std::numeric_limits<tensor_size_t>::max());
                }
            }
            std::vector<int> seen(static_cast<size_t>(samples.size()), 0);
            const auto       handle = [&](tensor_range_t range, size_t tnum, const tensor2d_cmap_t& inputs_)
            {
                simrt_yield("iterator-callback");
                const vf::tsan_ignore_t ignore; // harness bookkeeping below
                if (tnum >= dataset.concurrency())
                {
                    c.fail("worker-id", "iterator passed worker id " + std::to_string(tnum));
                }
                for (tensor_size_t i = range.begin(); i < range.end(); ++i)
                {
                    seen[static_cast<size_t>(i)]++;
                }
                std::vector<double> row;
                for (tensor_size_t i = 0; i < range.size() && !c.failed(); ++i)
                {
                    model.flatten_row(samples(range.begin() + i), row);
                    for (tensor_size_t k = 0; k < model.columns; ++k)
                    {
                        const auto want = std::isnan(row[static_cast<size_t>(k)]) ? 0.0 : row[static_cast<size_t>(k)];
                        if (inputs_(i, k) != want)
                        {
                            c.fail("iterator-flatten-differs", "flatten iterator (batch " + std::to_string(batch) + (cache ? ", cached" : "") + "): sample " +
                                                                   std::to_string(samples(range.begin() + i)) + " column " + std::to_string(k) + " is " +
                                                                   std::to_string(inputs_(i, k)) + ", stored values give " + std::to_string(want));
                            break;
                        }
                    }
                }
            };
            if (has_target && r.coin(0.5))
            {
                iterator.loop([&](tensor_range_t range, size_t tnum, tensor2d_cmap_t in, tensor4d_cmap_t) { handle(range, tnum, in); });
            }
            else
            {
                iterator.loop([&](tensor_range_t range, size_t tnum, tensor2d_cmap_t in) { handle(range, tnum, in); });
            }
            for (size_t i = 0; i < seen.size() && !c.failed(); ++i)
            {
                if (seen[i] != 1)
                {
                    c.fail("iterator-coverage", "flatten iterator delivered position " + std::to_string(i) + " " + std::to_string(seen[i]) + " times");
                }
            }
            c.probe("op_iterator_flatten");
            break;
        }
        case 6:
        {
            if (nfeat == 0)
            {
                break;
            }
            // select iterator over all features of each kind: every feature exactly once, content = reference
            const auto samples = index_list(r, total);
            d << "iter-select" << samples.size() << " ";
            const auto        iterator = select_iterator_t{dataset};
            std::vector<int>  seen(static_cast<size_t>(nfeat), 0);
            const auto        note = [&](tensor_size_t f, size_t tnum)
            {
                if (f < 0 || f >= nfeat || tnum >= dataset.concurrency())
                {
                    c.fail("worker-id", "select iterator passed feature " + std::to_string(f) + " / worker id " + std::to_string(tnum));
                    return false;
                }
                seen[static_cast<size_t>(f)]++;
                return true;
            };
            iterator.loop(samples,
                          [&](tensor_size_t f, size_t tnum, sclass_cmap_t v)
                          {
                              simrt_yield("select-callback");
                              const vf::tsan_ignore_t ignore;
                              if (note(f, tnum))
                              {
                                  chk.check_select(samples, f, v, "select iterator (sclass)");
                              }
                          });
            iterator.loop(samples,
                          [&](tensor_size_t f, size_t tnum, mclass_cmap_t v)
                          {
                              simrt_yield("select-callback");
                              const vf::tsan_ignore_t ignore;
                              if (note(f, tnum))
                              {
                                  chk.check_select(samples, f, v, "select iterator (mclass)");
                              }
                          });
            iterator.loop(samples,
                          [&](tensor_size_t f, size_t tnum, scalar_cmap_t v)
                          {
                              simrt_yield("select-callback");
                              const vf::tsan_ignore_t ignore;
                              if (note(f, tnum))
                              {
                                  chk.check_select(samples, f, v, "select iterator (scalar)");
                              }
                          });
            iterator.loop(samples,
                          [&](tensor_size_t f, size_t tnum, struct_cmap_t v)
                          {
                              simrt_yield("select-callback");
                              const vf::tsan_ignore_t ignore;
                              if (note(f, tnum))
                              {
                                  chk.check_select(samples, f, v, "select iterator (struct)");
                              }
                          });
            for (tensor_size_t f = 0; f < nfeat && !c.failed(); ++f)
            {
                if (seen[static_cast<size_t>(f)] != 1)
                {
                    c.fail("iterator-coverage", "select iterator delivered feature " + std::to_string(f) + " " + std::to_string(seen[static_cast<size_t>(f)]) + " times");
                }
            }
            c.probe("op_iterator_select");
            break;
        }
        case 7:
        {
            if (nfeat == 0)
            {
                break;
            }
            const auto f = r.range(0, nfeat - 1);
            if (model.perms.count(f) != 0U)
            {
                break; // the statement does not say what drop does to a shuffled feature: not generated
            }
            d << "drop(f" << f << ") ";
            dataset.drop(f);
            model.dropped.insert(f);
            c.probe("op_drop");
            break;
        }
        case 8:
        {
            if (nfeat == 0)
            {
                break;
            }
            const auto f = r.range(0, nfeat - 1);
            if (model.dropped.count(f) != 0U)
            {
                break;
            }
            d << "shuffle(f" << f << ") ";
            dataset.shuffle(f); // draws from the entropy seam
            const auto all  = arange(0, total);
            const auto perm = dataset.shuffled(f, all);
            // the reported map must be a bijection of the samples
            std::vector<int> hit(static_cast<size_t>(total), 0);
            bool             ok = perm.size() == total;
            for (tensor_size_t i = 0; ok && i < total; ++i)
            {
                ok = perm(i) >= 0 && perm(i) < total && hit[static_cast<size_t>(perm(i))]++ == 0;
            }
            if (!ok)
            {
                c.fail("shuffle-not-bijection", "shuffled(f, all samples) is not a permutation of the samples");
                break;
            }
            model.perms[f] = perm;
            c.probe("op_shuffle");
            break;
        }
        case 9:
        {
            d << "reset ";
            dataset.undrop();
            dataset.unshuffle();
            model.dropped.clear();
            model.perms.clear();
            c.probe("op_reset");
            break;
        }
        default:
        {
            // boundary probes: out-of-range sample / feature indices are rejected with an exception, never read
            const auto which = r.range(0, 5);
            d << "probe" << which << " ";
            bool threw = false;
            try
            {
                indices_t samples = index_list(r, total);
                tensor2d_t fb;
                tensor4d_t tb;
                scalar_mem_t sb;
                sclass_mem_t cb;
                switch (which)
                {
                case 0:
                    samples(r.range(0, samples.size() - 1)) = total; // one past the end
                    dataset.flatten(samples, fb);
                    break;
                case 1:
                    samples(r.range(0, samples.size() - 1)) = -1;
                    dataset.flatten(samples, fb);
                    break;
                case 2:
                {
                    // far out of range, around the widths an index could be narrowed to
                    static const int64_t wide[] = {int64_t(1) << 31, (int64_t(1) << 31) - 1, int64_t(1) << 32, (int64_t(1) << 32) + 1, int64_t(1) << 33,
                                                   -(int64_t(1) << 32), -(int64_t(1) << 31), std::numeric_limits<int64_t>::max(),
                                                   std::numeric_limits<int64_t>::min(), int64_t(1) << 16, int64_t(1) << 8};
                    const auto k                = r.range(0, std::max<int64_t>(total - 1, 0));
                    samples(r.range(0, samples.size() - 1)) = r.coin(0.3) ? total + r.range(0, 100) : static_cast<int64_t>(static_cast<uint64_t>(wide[r.next() % 11]) + static_cast<uint64_t>(r.coin() ? k : 0)); // (wraps)
                    if (samples.min() >= 0 && samples.max() < total)
                    {
                        samples(0) = total; // (2^8 / 2^16 may be valid indices of a large dataset)
                    }
                    if (has_target && r.coin(0.3))
                    {
                        dataset.targets(samples, tb);
                    }
                    else
                    {
                        dataset.flatten(samples, fb);
                    }
                    break;
                }
                case 3:
                    samples(r.range(0, samples.size() - 1)) = total;
                    if (nfeat > 0)
                    {
                        const auto f = r.range(0, nfeat - 1);
                        const auto k = model.features[static_cast<size_t>(f)].kind;
                        if (k == 0)
                        {
                            dataset.select(samples, f, cb);
                        }
                        else if (k == 2 || k == 4 || k == 6)
                        {
                            dataset.select(samples, f, sb);
                        }
                        else
                        {
                            dataset.flatten(samples, fb);
                        }
                    }
                    else
                    {
                        dataset.flatten(samples, fb);
                    }
                    break;
                case 4: dataset.select(samples, nfeat, sb); break;
                default: dataset.select(samples, tensor_size_t{-1}, sb); break;
                }
            }
            catch (const std::exception&)
            {
                threw = true;
            }
            if (!threw)
            {
                c.fail("out-of-range-accepted",
                       std::string(which == 0 || which == 3 ? "a sample index equal to samples()"
                                   : which == 1             ? "sample index -1"
                                   : which == 2             ? "a sample index beyond samples()"
                                   : which == 4             ? "a feature index equal to features()"
                                                            : "feature index -1") +
                           " was accepted instead of being rejected with an exception");
            }
            c.fire("out_of_range_index");
            c.probe("op_boundary_probe");
            break;
        }
        }
    }
    d << "]";
    c.sample = d.str();
    if (!c.failed())
    {
        // final: after the history the views still equal the model
        const auto all = arange(0, total);
        tensor2d_t b;
        chk.check_flatten_rows(all, 0, dataset.flatten(all, b), "final flatten");
    }
    c.dig(static_cast<uint64_t>(model.columns));
    c.dig(static_cast<uint64_t>(model.perms.size() * 31 + model.dropped.size()));
}

void run(ctx_t& c)
{
    c.begin_sim(static_cast<int>(c.knob("max_cores", 16)));
    body(c);
    c.end_sim();
}
} // namespace

int main(int argc, char** argv)
{
    return vf::worker_main(argc, argv, "C08", run, [] { vf::warm_factories(); });
}
