// Seeded data sources and helpers shared by the ML harnesses (C08, C09, C10, C11, C13, C15, C18).
#pragma once

#include "common.h"

#include <nano/dataset.h>
#include <nano/dataset/iterator.h>
#include <nano/datasource.h>
#include <nano/generator/elemwise_identity.h>

#include <nano/function.h>
#include <nano/linear.h>
#include <nano/loss.h>
#include <nano/lsearch0.h>
#include <nano/lsearchk.h>
#include <nano/solver.h>
#include <nano/splitter.h>
#include <nano/tuner.h>
#include <nano/wlearner.h>

#include <cmath>
#include <limits>

namespace vf
{
using namespace nano;

struct schema_t
{
    features_t    features;
    size_t        target{std::string::npos}; // index in features, npos: unsupervised
    tensor_size_t samples{0};
};

// description of what a schema may contain
struct schema_opts_t
{
    int  min_features{1}, max_features{8};
    int  min_samples{2}, max_samples{60};
    bool allow_sclass{true}, allow_mclass{true}, allow_scalar{true}, allow_struct{true};
    int  max_classes{6};
    bool all_storage_types{false}; // scalar features over all 10 arithmetic storage types (else float32/float64/ints mix)
    bool image_structs{false};     // some structured features are (channels, 3-4, 3-4) images (inputs of the gradient generator)
    // target: 0 none, 1 scalar regression, 2 sclass, 3 mclass, 4 struct regression, -1 random
    int target_kind{1};
};

inline feature_type random_scalar_type(rng_t& r, bool all)
{
    static const feature_type all_types[] = {feature_type::int8,   feature_type::int16,  feature_type::int32,   feature_type::int64,
                                             feature_type::uint8,  feature_type::uint16, feature_type::uint32,  feature_type::uint64,
                                             feature_type::float32, feature_type::float64};
    static const feature_type some[]      = {feature_type::float64, feature_type::float64, feature_type::float32, feature_type::int16,
                                             feature_type::uint8};
    return all ? all_types[r.next() % 10] : some[r.next() % 5];
}

inline schema_t random_schema(rng_t& r, const schema_opts_t& o)
{
    schema_t s;
    s.samples          = r.range(o.min_samples, o.max_samples);
    const auto n_input = r.range(o.min_features, o.max_features);
    for (int64_t i = 0; i < n_input; ++i)
    {
        std::vector<int> kinds;
        if (o.allow_sclass)
        {
            kinds.push_back(0);
        }
        if (o.allow_mclass)
        {
            kinds.push_back(1);
        }
        if (o.allow_scalar)
        {
            kinds.push_back(2);
            kinds.push_back(2);
        }
        if (o.allow_struct)
        {
            kinds.push_back(3);
        }
        const int  kind = kinds[static_cast<size_t>(r.next() % kinds.size())];
        const auto name = "f" + std::to_string(i);
        switch (kind)
        {
        case 0:
        {
            // storage-type boundaries of single-label features (uint8 / uint16) get their share when wide class counts are allowed
            auto classes = r.range(1, o.max_classes);
            if (o.max_classes >= 300 && r.coin(0.4))
            {
                classes = r.pick<int64_t>({1, 2, 255, 256, 257, 300});
            }
            s.features.push_back(feature_t{name}.sclass(static_cast<size_t>(classes)));
            break;
        }
        case 1: s.features.push_back(feature_t{name}.mclass(static_cast<size_t>(r.range(1, o.max_classes)))); break;
        case 2: s.features.push_back(feature_t{name}.scalar(random_scalar_type(r, o.all_storage_types))); break;
        default:
        {
            auto d0 = r.range(1, 3), d1 = r.range(1, 3), d2 = r.range(1, 2);
            if (d0 * d1 * d2 == 1)
            {
                d0 = 2;
            }
            if (o.image_structs && r.coin(0.6))
            {
                d0 = r.range(1, 2);
                d1 = r.range(3, 4);
                d2 = r.range(3, 4);
            }
            s.features.push_back(feature_t{name}.scalar(random_scalar_type(r, o.all_storage_types), make_dims(d0, d1, d2)));
            break;
        }
        }
    }
    int tk = o.target_kind;
    if (tk < 0)
    {
        tk = static_cast<int>(r.range(0, 4));
    }
    switch (tk)
    {
    case 1: s.features.push_back(feature_t{"target"}.scalar(feature_type::float64)); break;
    case 2: s.features.push_back(feature_t{"target"}.sclass(static_cast<size_t>(r.range(2, std::max(2, o.max_classes))))); break;
    case 3: s.features.push_back(feature_t{"target"}.mclass(static_cast<size_t>(r.range(2, std::max(2, o.max_classes))))); break;
    case 4: s.features.push_back(feature_t{"target"}.scalar(feature_type::float64, make_dims(r.range(1, 3), 1, r.range(1, 2)))); break;
    default: break;
    }
    if (tk != 0)
    {
        // the target may sit anywhere in the feature list
        const auto pos = static_cast<size_t>(r.range(0, static_cast<int64_t>(s.features.size()) - 1));
        std::swap(s.features[pos], s.features.back());
        s.target = pos;
    }
    return s;
}

// in-memory data source with seeded values, arbitrary missing-value masks and a plain reference copy of what it stored
class sim_datasource_t final : public datasource_t
{
public:
    // value_mode: 0 continuous random, 1 few distinct values (ties), 2 small integers;
    // +10: additionally some float64 features live at an extreme magnitude (physical units, subnormal numbers)
    sim_datasource_t(schema_t schema, uint64_t seed, double missing_rate, bool target_always_given = true, int value_mode = 0)
        : datasource_t("sim")
        , m_schema(std::move(schema))
        , m_seed(seed)
        , m_missing(missing_rate)
        , m_target_given(target_always_given)
        , m_value_mode(value_mode)
    {
    }

    rdatasource_t clone() const override { return std::make_unique<sim_datasource_t>(*this); }

    const schema_t& schema() const { return m_schema; }

    // multiply the stored target values (used to probe the numerical stability of a fit; call before load())
    void target_scale(double scale) { m_target_scale = scale; }

    // every continuous target value is multiplied by its own factor 1 + amplitude * u, u in [-1, 1] drawn from the seed
    // (a probe for numerical near-ties: far below anything a user could mean, far above re-association noise)
    void target_noise(uint64_t seed, double amplitude)
    {
        m_target_noise_seed = seed;
        m_target_noise      = amplitude;
    }

    // reference copy: per stored feature (schema order), per sample: vector of values; empty = missing
    const std::vector<std::vector<std::vector<double>>>& stored() const { return m_stored; }

    // index of the i-th INPUT feature in schema order
    size_t input2schema(tensor_size_t ifeature) const
    {
        const auto i = static_cast<size_t>(ifeature);
        return (m_schema.target != std::string::npos && i >= m_schema.target) ? i + 1 : i;
    }

private:
    void do_load() override
    {
        const auto& fs = m_schema.features;
        if (m_schema.target == std::string::npos)
        {
            resize(m_schema.samples, fs);
        }
        else
        {
            resize(m_schema.samples, fs, m_schema.target);
        }
        rng_t r(mix(m_seed, 0xDA7A));
        m_stored.assign(fs.size(), std::vector<std::vector<double>>(static_cast<size_t>(m_schema.samples)));
        for (size_t f = 0; f < fs.size(); ++f)
        {
            const auto& feat = fs[f];
            // per-feature missing rate: some features complete, some mostly missing
            double rate = m_missing;
            if (m_missing > 0.0)
            {
                const auto u = r.unit();
                rate         = u < 0.3 ? 0.0 : (u < 0.9 ? m_missing : 0.9);
            }
            if (f == m_schema.target && m_target_given)
            {
                rate = 0.0;
            }
            // magnitude of this feature (float64 inputs only): values are drawn at O(1) and multiplied by an exact power of ten
            double magnitude = 1.0;
            if (m_value_mode >= 10 && f != m_schema.target && feat.type() == feature_type::float64 && r.coin(0.25))
            {
                static const double scales[] = {1e-310, 1e-300, 1e-100, 1e-30, 1e-19, 1e-12, 1e6, 1e30, 1e100};
                magnitude                    = scales[r.next() % 9];
            }
            for (tensor_size_t s = 0; s < m_schema.samples; ++s)
            {
                const bool given = !(r.unit() < rate);
                // always draw the values so that masks do not shift the value stream
                std::vector<double> vals;
                if (feat.type() == feature_type::sclass)
                {
                    vals.push_back(static_cast<double>(r.range(0, feat.classes() - 1)));
                }
                else if (feat.type() == feature_type::mclass)
                {
                    for (tensor_size_t c = 0; c < feat.classes(); ++c)
                    {
                        vals.push_back(r.coin(0.4) ? 1.0 : 0.0);
                    }
                }
                else
                {
                    const auto n = ::nano::size(feat.dims());
                    for (tensor_size_t k = 0; k < n; ++k)
                    {
                        vals.push_back(draw_value(r, feat.type()) * magnitude);
                    }
                }
                if (!given)
                {
                    continue;
                }
                if (f == m_schema.target && m_target_scale != 1.0 && feat.type() != feature_type::sclass && feat.type() != feature_type::mclass)
                {
                    for (auto& v : vals)
                    {
                        v *= m_target_scale;
                    }
                }
                if (f == m_schema.target && m_target_noise_seed != 0 && feat.type() != feature_type::sclass && feat.type() != feature_type::mclass)
                {
                    rng_t noise(mix(m_target_noise_seed, static_cast<uint64_t>(s) + 1));
                    for (auto& v : vals)
                    {
                        v *= 1.0 + m_target_noise * (2.0 * noise.unit() - 1.0);
                    }
                }
                if (feat.type() == feature_type::sclass)
                {
                    set(s, static_cast<tensor_size_t>(f), static_cast<int64_t>(vals[0]));
                }
                else if (feat.type() == feature_type::mclass)
                {
                    tensor_mem_t<int8_t, 1> t(static_cast<tensor_size_t>(vals.size()));
                    for (size_t c = 0; c < vals.size(); ++c)
                    {
                        t(static_cast<tensor_size_t>(c)) = static_cast<int8_t>(vals[c]);
                    }
                    set(s, static_cast<tensor_size_t>(f), t);
                }
                else if (vals.size() == 1)
                {
                    set(s, static_cast<tensor_size_t>(f), vals[0]);
                }
                else
                {
                    tensor_mem_t<scalar_t, 3> t(feat.dims());
                    for (size_t k = 0; k < vals.size(); ++k)
                    {
                        t(static_cast<tensor_size_t>(k)) = vals[k];
                    }
                    set(s, static_cast<tensor_size_t>(f), t);
                }
                m_stored[f][static_cast<size_t>(s)] = vals;
            }
        }
    }

    double draw_value(rng_t& r, feature_type type) const
    {
        // values exactly representable in the storage type (so that the stored value IS the drawn value)
        if (m_value_mode % 10 == 2 && type != feature_type::float32 && type != feature_type::float64)
        {
            // small integers in every integer storage type: a value that lies exactly at the mid-point of two others (the threshold
            // of a split fitted on a subset that lacks it) is then frequent, see seeded change C10-dtree-split-boundary
            const bool is_unsigned = type == feature_type::uint8 || type == feature_type::uint16 || type == feature_type::uint32 ||
                                     type == feature_type::uint64;
            return static_cast<double>(is_unsigned ? r.range(0, 10) : r.range(-5, 5));
        }
        switch (type)
        {
        case feature_type::int8: return static_cast<double>(r.range(-100, 100));
        case feature_type::int16: return static_cast<double>(r.range(-3000, 3000));
        case feature_type::int32: return static_cast<double>(r.range(-100000, 100000));
        case feature_type::int64: return static_cast<double>(r.range(-1000000, 1000000));
        case feature_type::uint8: return static_cast<double>(r.range(0, 200));
        case feature_type::uint16: return static_cast<double>(r.range(0, 60000));
        case feature_type::uint32: return static_cast<double>(r.range(0, 1000000));
        case feature_type::uint64: return static_cast<double>(r.range(0, 10000000));
        case feature_type::float32:
            if (m_value_mode % 10 == 1)
            {
                return static_cast<double>(r.range(-2, 2)) * 0.5;
            }
            return static_cast<double>(static_cast<float>(r.real(-3.0, 3.0)));
        default:
            if (m_value_mode % 10 == 1)
            {
                return static_cast<double>(r.range(-3, 3)) * 0.25;
            }
            if (m_value_mode % 10 == 2)
            {
                return static_cast<double>(r.range(-5, 5));
            }
            return r.real(-2.0, 2.0);
        }
    }

    schema_t                                         m_schema;
    uint64_t                                         m_seed;
    double                                           m_missing;
    bool                                             m_target_given;
    int                                              m_value_mode;
    double                                           m_target_scale{1.0};
    uint64_t                                         m_target_noise_seed{0};
    double                                           m_target_noise{0.0};
    std::vector<std::vector<std::vector<double>>>    m_stored;
};

// complete the one-time registration of all 11 factories outside the simulation (see worker_main's warm-up)
inline void warm_factories()
{
    (void)datasource_t::all().ids();
    (void)generator_t::all().ids();
    (void)function_t::all().ids();
    (void)loss_t::all().ids();
    (void)lsearch0_t::all().ids();
    (void)lsearchk_t::all().ids();
    (void)solver_t::all().ids();
    (void)splitter_t::all().ids();
    (void)tuner_t::all().ids();
    (void)wlearner_t::all().ids();
    (void)linear_t::all().ids();
}

inline void add_identity_generators(dataset_t& dataset)
{
    dataset.add<sclass_identity_generator_t>();
    dataset.add<mclass_identity_generator_t>();
    dataset.add<scalar_identity_generator_t>();
    dataset.add<struct_identity_generator_t>();
}

inline uint64_t bits(double v)
{
    uint64_t u = 0;
    memcpy(&u, &v, sizeof(u));
    return u;
}

template <class ttensor>
uint64_t tensor_digest(const ttensor& t)
{
    uint64_t h = 0x7E4502;
    for (tensor_size_t i = 0; i < t.size(); ++i)
    {
        h = mix(h, bits(static_cast<double>(t(i))));
    }
    return h;
}

template <class ta, class tb>
bool bit_identical(const ta& a, const tb& b)
{
    if (a.size() != b.size())
    {
        return false;
    }
    for (tensor_size_t i = 0; i < a.size(); ++i)
    {
        const auto x = static_cast<double>(a(i)), y = static_cast<double>(b(i));
        if (bits(x) != bits(y) && !(std::isnan(x) && std::isnan(y)))
        {
            return false;
        }
    }
    return true;
}

inline bool close(double a, double b, double rel, double abs_floor)
{
    if (std::isnan(a) || std::isnan(b))
    {
        return std::isnan(a) && std::isnan(b);
    }
    if (std::isinf(a) || std::isinf(b))
    {
        return a == b;
    }
    return std::fabs(a - b) <= abs_floor + rel * std::max(std::fabs(a), std::fabs(b));
}
} // namespace vf
