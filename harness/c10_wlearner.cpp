// C10 - weak learners: optimal fit in class under any pool schedule; consistent prediction.
// One run: a seeded small dataset (scalar + categorical features with missing values and ties, 1-3 outputs), an arbitrary
// gradient tensor and sample subset, one weak learner. The learner is fitted (a) on one simulated core (everything inline) and
// (b) through the dataset pool under the run's simulated core count and schedule; oracles:
//   (i)   schedule differential: same score, same selected feature, same predictions;
//   (ii)  brute force over the hypothesis class with the RSS criterion (stump, hinge, affine, dense table, discrete step);
//   (iii) consistency clauses on the fitted learner (added to outputs, zero when the feature is missing, depends only on the
//         sample, equals the table of the group reported by split(), scale, merge, depth-1 tree == stump).
#include "mldata.h"

#include <nano/wlearner/affine.h>
#include <nano/wlearner/dtree.h>
#include <nano/wlearner/hinge.h>
#include <nano/wlearner/stump.h>
#include <nano/wlearner/table.h>
#include <nano/wlearner/util.h>

using namespace nano;
using vf::ctx_t;
using vrng = vf::rng_t;

namespace
{
struct problem_t
{
    std::unique_ptr<vf::sim_datasource_t> source;
    indices_t                             samples;
    tensor4d_t                            gradients;
    tensor_size_t                         tsize{1};
};

struct fit_t
{
    rwlearner_t learner;
    double      score{0};
    bool        fitted{false};
    tensor4d_t  predictions; // on all samples of the dataset, from zero
    bool        threw{false};
    std::string what;
};

fit_t fit_once(const problem_t& p, const string_t& id, const string_t& criterion, int cores, int64_t pool, int64_t depth, bool used_before = false)
{
    fit_t f;
    simrt_set_cores(cores);
    try
    {
        auto dataset = dataset_t{*p.source, static_cast<size_t>(pool)};
        vf::add_identity_generators(dataset);
        f.learner = wlearner_t::all().get(id);
        f.learner->parameter("wlearner::criterion") = criterion;
        if (id == "dtree")
        {
            f.learner->parameter("wlearner::dtree::max_depth") = depth;
            f.learner->parameter("wlearner::dtree::min_split") = 1;
        }
        if (used_before)
        {
            // the same learner OBJECT has been fitted before, on other residuals and another sample list: a fit starts from scratch
            tensor4d_t other = p.gradients;
            for (tensor_size_t i = 0; i < other.size(); ++i)
            {
                other(i) = -0.5 * p.gradients(other.size() - 1 - i) + (i % 3 == 0 ? 1.0 : 0.0);
            }
            indices_t some(std::max<tensor_size_t>(1, p.samples.size() / 2));
            for (tensor_size_t i = 0; i < some.size(); ++i)
            {
                some(i) = p.samples(p.samples.size() - 1 - i);
            }
            try
            {
                f.learner->fit(dataset, some, other);
            }
            catch (const std::exception&)
            {
            }
        }
        f.score  = f.learner->fit(dataset, p.samples, p.gradients);
        f.fitted = f.score != wlearner_t::no_fit_score();
        if (f.fitted)
        {
            const auto all = arange(0, dataset.samples());
            f.predictions  = f.learner->predict(dataset, all);
        }
    }
    catch (const std::exception& e)
    {
        f.threw = true;
        f.what  = e.what();
    }
    return f;
}

double rss_of(const problem_t& p, const tensor4d_t& predictions)
{
    double rss = 0.0;
    for (tensor_size_t i = 0; i < p.samples.size(); ++i)
    {
        const auto s = p.samples(i);
        for (tensor_size_t k = 0; k < p.tsize; ++k)
        {
            const auto r = -p.gradients(s * p.tsize + k) - predictions(s * p.tsize + k);
            rss += r * r;
        }
    }
    return rss;
}

// ---------------------------------------------------------------------------------------------
// brute force over the hypothesis classes (RSS criterion), from the direct single-threaded dataset views
struct brute_t
{
    double best{std::numeric_limits<double>::infinity()};
    bool   any{false};
};

// sum over the fit samples of (|w * x| + |b| + |target|)^2: the size of the terms the closed-form scores add up and cancel
// (affine / hinge: from the coefficient tables and the selected feature's values; other classes: |prediction| + |target|)
double term_magnitude(const problem_t& p, const wlearner_t& learner, const tensor4d_t& predictions, const string_t& id)
{
    double      total  = 0.0;
    const auto* single = dynamic_cast<const single_feature_wlearner_t*>(&learner);
    if ((id == "hinge" || id == "affine") && single != nullptr && single->feature() >= 0 && single->tables().size<0>() == 2)
    {
        auto dataset = dataset_t{*p.source, 1U};
        vf::add_identity_generators(dataset);
        scalar_mem_t buffer;
        const auto   values = dataset.select(p.samples, single->feature(), buffer);
        const auto   w = single->vector(0), b = single->vector(1);
        for (tensor_size_t i = 0; i < p.samples.size(); ++i)
        {
            if (!std::isfinite(values(i)))
            {
                continue;
            }
            for (tensor_size_t k = 0; k < p.tsize; ++k)
            {
                const auto term = std::fabs(w(k) * values(i)) + std::fabs(b(k)) + std::fabs(p.gradients(p.samples(i) * p.tsize + k));
                total += term * term;
            }
        }
        return std::isfinite(total) ? total : 0.0;
    }
    for (tensor_size_t i = 0; i < p.samples.size(); ++i)
    {
        for (tensor_size_t k = 0; k < p.tsize; ++k)
        {
            const auto term = std::fabs(predictions(p.samples(i) * p.tsize + k)) + std::fabs(p.gradients(p.samples(i) * p.tsize + k));
            total += term * term;
        }
    }
    return std::isfinite(total) ? total : 0.0;
}

double total_r2(const problem_t& p)
{
    double v = 0.0;
    for (tensor_size_t i = 0; i < p.samples.size(); ++i)
    {
        for (tensor_size_t k = 0; k < p.tsize; ++k)
        {
            const auto g = p.gradients(p.samples(i) * p.tsize + k);
            v += g * g;
        }
    }
    return v;
}

// RSS of fitting one constant vector to a set of sample positions (indices into p.samples)
double rss_constant(const problem_t& p, const std::vector<tensor_size_t>& pos)
{
    if (pos.empty())
    {
        return 0.0;
    }
    double rss = 0.0;
    for (tensor_size_t k = 0; k < p.tsize; ++k)
    {
        double s1 = 0.0, s2 = 0.0;
        for (const auto i : pos)
        {
            const auto r = -p.gradients(p.samples(i) * p.tsize + k);
            s1 += r;
            s2 += r * r;
        }
        rss += s2 - s1 * s1 / static_cast<double>(pos.size());
    }
    return rss;
}

double rss_zero(const problem_t& p, const std::vector<tensor_size_t>& pos)
{
    double rss = 0.0;
    for (const auto i : pos)
    {
        for (tensor_size_t k = 0; k < p.tsize; ++k)
        {
            const auto r = p.gradients(p.samples(i) * p.tsize + k);
            rss += r * r;
        }
    }
    return rss;
}

brute_t brute_force(const problem_t& p, const string_t& id)
{
    brute_t b;
    simrt_set_cores(1);
    auto dataset = dataset_t{*p.source, 1U};
    vf::add_identity_generators(dataset);
    const auto n = p.samples.size();
    for (tensor_size_t f = 0; f < dataset.features(); ++f)
    {
        const auto feature = dataset.feature(f);
        if ((id == "stump" || id == "affine" || id == "hinge") && feature.is_scalar())
        {
            scalar_mem_t buffer;
            const auto   values = dataset.select(p.samples, f, buffer);
            std::vector<tensor_size_t> given, missing;
            for (tensor_size_t i = 0; i < n; ++i)
            {
                (std::isfinite(values(i)) ? given : missing).push_back(i);
            }
            const auto miss = rss_zero(p, missing);
            if (id == "affine")
            {
                // closed-form least squares per output; degenerate (constant feature) -> the library yields non-finite scores
                double x0 = static_cast<double>(given.size()), x1 = 0, x2 = 0;
                for (const auto i : given)
                {
                    x1 += values(i);
                    x2 += values(i) * values(i);
                }
                const auto det = x2 * x0 - x1 * x1;
                // (relative to the feature's own scale: a feature stored at 1e-12 is as good as one stored at 1)
                if (given.size() < 2 || !(x2 * x0 > 0.0) || !(std::fabs(det) > 1e-9 * x2 * x0))
                {
                    continue;
                }
                double rss = miss;
                for (tensor_size_t k = 0; k < p.tsize; ++k)
                {
                    double r1 = 0, rx = 0;
                    for (const auto i : given)
                    {
                        const auto r = -p.gradients(p.samples(i) * p.tsize + k);
                        r1 += r;
                        rx += r * values(i);
                    }
                    const auto w = (rx * x0 - r1 * x1) / det, c = (r1 * x2 - rx * x1) / det;
                    for (const auto i : given)
                    {
                        const auto e = -p.gradients(p.samples(i) * p.tsize + k) - (w * values(i) + c);
                        rss += e * e;
                    }
                }
                b.best = std::min(b.best, rss);
                b.any  = true;
                continue;
            }
            // thresholds: mid-points between consecutive distinct values
            std::vector<double> distinct;
            for (const auto i : given)
            {
                distinct.push_back(values(i));
            }
            std::sort(distinct.begin(), distinct.end());
            distinct.erase(std::unique(distinct.begin(), distinct.end()), distinct.end());
            for (size_t t = 0; t + 1 < distinct.size(); ++t)
            {
                const auto threshold = 0.5 * (distinct[t] + distinct[t + 1]);
                std::vector<tensor_size_t> lo, hi;
                for (const auto i : given)
                {
                    (values(i) < threshold ? lo : hi).push_back(i);
                }
                if (id == "stump")
                {
                    b.best = std::min(b.best, miss + rss_constant(p, lo) + rss_constant(p, hi));
                    b.any  = true;
                }
                else
                {
                    // hinge: beta * (x - t) on one side, zero on the other; least squares through the threshold
                    for (const int side : {0, 1})
                    {
                        const auto& act = side == 0 ? lo : hi;
                        const auto& off = side == 0 ? hi : lo;
                        double      xx  = 0.0;
                        for (const auto i : act)
                        {
                            xx += (values(i) - threshold) * (values(i) - threshold);
                        }
                        if (!(xx > 0.0))
                        {
                            continue;
                        }
                        double rss = miss + rss_zero(p, off);
                        for (tensor_size_t k = 0; k < p.tsize; ++k)
                        {
                            double rx = 0.0;
                            for (const auto i : act)
                            {
                                rx += -p.gradients(p.samples(i) * p.tsize + k) * (values(i) - threshold);
                            }
                            const auto beta = rx / xx;
                            for (const auto i : act)
                            {
                                const auto e = -p.gradients(p.samples(i) * p.tsize + k) - beta * (values(i) - threshold);
                                rss += e * e;
                            }
                        }
                        b.best = std::min(b.best, rss);
                        b.any  = true;
                    }
                }
            }
        }
        else if ((id == "dense-table" || id == "dstep-table") && (feature.is_sclass() || feature.is_mclass()))
        {
            // bins = distinct labelings among the samples with a value
            std::map<std::vector<int64_t>, std::vector<tensor_size_t>> bins;
            std::vector<tensor_size_t>                                 missing;
            if (feature.is_sclass())
            {
                sclass_mem_t buffer;
                const auto   values = dataset.select(p.samples, f, buffer);
                for (tensor_size_t i = 0; i < n; ++i)
                {
                    if (values(i) >= 0)
                    {
                        bins[{static_cast<int64_t>(values(i))}].push_back(i);
                    }
                    else
                    {
                        missing.push_back(i);
                    }
                }
            }
            else
            {
                mclass_mem_t buffer;
                const auto   values = dataset.select(p.samples, f, buffer);
                for (tensor_size_t i = 0; i < n; ++i)
                {
                    if (values(i, 0) >= 0)
                    {
                        std::vector<int64_t> key;
                        for (tensor_size_t c = 0; c < values.size<1>(); ++c)
                        {
                            key.push_back(values(i, c));
                        }
                        bins[key].push_back(i);
                    }
                    else
                    {
                        missing.push_back(i);
                    }
                }
            }
            if (bins.empty())
            {
                continue;
            }
            const auto miss = rss_zero(p, missing);
            if (id == "dense-table")
            {
                double rss = miss;
                for (const auto& [key, pos] : bins)
                {
                    rss += rss_constant(p, pos);
                }
                b.best = std::min(b.best, rss);
                b.any  = true;
            }
            else
            {
                // discrete step: one labeling gets a constant, everything else predicts zero
                double all = miss;
                for (const auto& [key, pos] : bins)
                {
                    all += rss_zero(p, pos);
                }
                for (const auto& [key, pos] : bins)
                {
                    b.best = std::min(b.best, all - rss_zero(p, pos) + rss_constant(p, pos));
                    b.any  = true;
                }
            }
        }
    }
    return b;
}

bool close_tensor(const tensor4d_t& a, const tensor4d_t& b, double rel, double& worst)
{
    worst = 0.0;
    if (a.size() != b.size())
    {
        return false;
    }
    double scale = 1e-300;
    for (tensor_size_t i = 0; i < a.size(); ++i)
    {
        scale = std::max({scale, std::fabs(a(i)), std::fabs(b(i))});
    }
    for (tensor_size_t i = 0; i < a.size(); ++i)
    {
        worst = std::max(worst, std::fabs(a(i) - b(i)) / scale);
    }
    return worst <= rel;
}

void body(ctx_t& c)
{
    auto& r = c.wl;
    problem_t p;
    vf::schema_opts_t o;
    o.min_features = 1;
    o.max_features = 8;
    o.min_samples  = 2;
    o.max_samples  = 60;
    o.allow_struct = r.coin(0.2);
    o.max_classes  = 6;
    o.target_kind  = r.coin(0.6) ? 1 : 4;
    const auto schema = vf::random_schema(r, o);
    p.source = std::make_unique<vf::sim_datasource_t>(schema, r.next(), r.coin(0.35) ? 0.0 : r.real(0.05, 0.5), true,
                                                      static_cast<int>(r.range(0, 2)) + (r.coin(0.3) ? 10 : 0));
    p.source->load();
    const auto total = p.source->samples();
    {
        simrt_set_cores(1);
        auto dataset = dataset_t{*p.source, 1U};
        p.tsize      = ::nano::size(dataset.target_dims());
        p.gradients.resize(cat_dims(total, dataset.target_dims()));
    }
    const auto gmode = r.range(0, 2);
    for (tensor_size_t i = 0; i < p.gradients.size(); ++i)
    {
        p.gradients(i) = gmode == 0 ? r.real(-1.0, 1.0) : (gmode == 1 ? static_cast<double>(r.range(-2, 2)) : r.real(-100.0, 100.0));
    }
    // sample subset: with or without repetition, any order
    {
        const auto n = r.range(1, total + (r.coin(0.3) ? total : 0));
        p.samples    = indices_t(n);
        for (tensor_size_t i = 0; i < n; ++i)
        {
            p.samples(i) = r.range(0, total - 1);
        }
        if (r.coin(0.5))
        {
            std::sort(std::begin(p.samples), std::end(p.samples));
            const auto e = std::unique(std::begin(p.samples), std::end(p.samples));
            indices_t  u(static_cast<tensor_size_t>(e - std::begin(p.samples)));
            std::copy(std::begin(p.samples), e, std::begin(u));
            p.samples = u;
        }
    }
    const auto ids       = wlearner_t::all().ids();
    const auto id        = ids[static_cast<size_t>(c.knob("learner", r.range(0, static_cast<int64_t>(ids.size()) - 1)))];
    const auto criterion = r.coin(0.6) ? string_t("rss") : r.pick(std::vector<string_t>{"aic", "aicc", "bic"});
    const auto pool      = c.knob("pool", r.coin(0.6) ? r.range(2, 6) : r.range(1, 16));
    const auto depth     = r.range(1, 3);
    c.sample = "learner=" + id + " criterion=" + criterion + " samples=" + std::to_string(p.samples.size()) + "/" + std::to_string(total) +
               " features=" + std::to_string(schema.features.size() - 1) + " outputs=" + std::to_string(p.tsize) + " cores=" + std::to_string(c.cfg.cores) +
               " pool=" + std::to_string(pool) + (id == "dtree" ? " depth=" + std::to_string(depth) : std::string());

    const auto ref = fit_once(p, id, criterion, 1, 1, depth);
    const bool used_before = r.coin(0.3);
    if (used_before)
    {
        c.probe("fit_on_a_learner_fitted_before");
    }
    const auto sim = fit_once(p, id, criterion, c.cfg.cores, pool, depth, used_before);
    if (std::min<int64_t>(pool, c.cfg.cores) >= 2)
    {
        c.probe("fits_through_the_pool");
    }
    // (a divergence of a fit on a learner object that was fitted before is attributed on ONE core, where nothing depends on a
    // schedule: if the used object diverges there too, its earlier fit leaks; otherwise it is the schedule)
    const auto differs = [&](const std::string& what)
    {
        if (used_before)
        {
            const auto used1 = fit_once(p, id, criterion, 1, 1, depth, true);
            double     w     = 0.0;
            const bool same  = used1.threw == ref.threw && used1.fitted == ref.fitted &&
                              (!ref.fitted || (vf::close(ref.score, used1.score, 1e-12, 1e-300) && close_tensor(ref.predictions, used1.predictions, 1e-12, w)));
            if (!same)
            {
                c.fail("fit-depends-on-earlier-fit", what + " [on one core the fit on the used learner object differs from the fit on a fresh one as well: the earlier fit leaks]");
                return;
            }
        }
        c.fail("fit-depends-on-schedule", what);
    };
    // (i) schedule differential
    if (ref.threw != sim.threw || ref.fitted != sim.fitted)
    {
        differs(id + ": fit outcome differs between one core and the pooled schedule (" + ref.what + sim.what + ")");
        return;
    }
    if (ref.threw)
    {
        c.probe("fit_threw");
        return;
    }
    if (!ref.fitted)
    {
        c.probe("not_fittable");
        // brute force agrees that nothing can be fitted?
        return;
    }
    c.probe("fitted_" + id);
    if (!vf::close(ref.score, sim.score, 1e-12, 1e-300))
    {
        differs(id + ": score " + std::to_string(ref.score) + " on one core vs " + std::to_string(sim.score) + " through the pool");
        return;
    }
    double worst = 0.0;
    if (!close_tensor(ref.predictions, sim.predictions, 1e-12, worst))
    {
        differs(id + ": predictions of the pooled fit differ from the one-core fit by " + std::to_string(worst) + " relative");
        return;
    }
    {
        const auto fa = ref.learner->features(), fb = sim.learner->features();
        if (fa.size() != fb.size() || !std::equal(std::begin(fa), std::end(fa), std::begin(fb)))
        {
            differs(id + ": selected features differ between one core and the pooled schedule");
            return;
        }
    }

    // (ii) optimality in class (RSS criterion)
    const auto r2 = total_r2(p);
    if (criterion == "rss")
    {
        const auto achieved = rss_of(p, sim.predictions);
        // the library scores candidates in closed form from accumulated moments (r2 + beta^2 * sum (x-t)^2 - 2 beta * sum r (x-t)):
        // the rounding error of that expression is proportional to the magnitude of its terms BEFORE they cancel, not to the
        // RSS. A hinge that is active on one sample 1e-3 away from its threshold has |w * x| and |b| ~ 4e3 for targets of
        // size 1; the closed form then carries ~1e-7 of noise and may also prefer a candidate that is worse by that much.
        const auto tol = 1e-9 * std::max(1.0, r2) + 64.0 * std::numeric_limits<double>::epsilon() * term_magnitude(p, *sim.learner, sim.predictions, id);
        // the reported score is the RSS of the fitted learner's own predictions (floored at 1e3 * epsilon by the library)
        // (the statement makes this claim for the five classes below only: k-best / k-split tables and trees are checked
        // through the schedule differential and the consistency clauses)
        const bool in_class = id == "stump" || id == "affine" || id == "hinge" || id == "dense-table" || id == "dstep-table";
        if (in_class && std::fabs(std::max(achieved, 2.3e-13) - std::max(sim.score, 2.3e-13)) > tol)
        {
            char num[160];
            snprintf(num, sizeof(num), " (reported %.17g, achieved %.17g, sum of squared targets %.6g)", sim.score, achieved, r2);
            c.fail("score-not-reproduced", id + ": reported RSS " + std::to_string(sim.score) + " but the predictions give " + std::to_string(achieved) + num);
            return;
        }
        if (!in_class && std::fabs(std::max(achieved, 2.3e-13) - std::max(sim.score, 2.3e-13)) > tol)
        {
            c.probe("score_not_reproduced_outside_the_five_classes");
        }
        if (in_class)
        {
            const auto b = brute_force(p, id);
            if (b.any)
            {
                c.probe("brute_force_compared");
                if (achieved > b.best + tol)
                {
                    c.fail("not-optimal", id + ": fitted RSS " + std::to_string(achieved) + " but brute force over the class attains " + std::to_string(b.best));
                    return;
                }
                if (achieved < b.best - tol)
                {
                    c.probe("better_than_brute_force"); // the reference class is a subset in degenerate cases (never an alarm)
                }
            }
        }
    }

    // (iii) consistency clauses on the pooled fit
    simrt_set_cores(c.cfg.cores);
    auto dataset = dataset_t{*p.source, static_cast<size_t>(pool)};
    vf::add_identity_generators(dataset);
    const auto& learner = *sim.learner;
    // depends only on the sample + added to the given outputs
    {
        const auto n = r.range(1, total + 3);
        indices_t  some(n);
        for (tensor_size_t i = 0; i < n; ++i)
        {
            some(i) = r.range(0, total - 1);
        }
        tensor4d_t outputs(cat_dims(n, dataset.target_dims()));
        for (tensor_size_t i = 0; i < outputs.size(); ++i)
        {
            outputs(i) = r.real(-3.0, 3.0);
        }
        const auto before = outputs;
        learner.predict(dataset, some, outputs.tensor());
        for (tensor_size_t i = 0; i < n && !c.failed(); ++i)
        {
            for (tensor_size_t k = 0; k < p.tsize; ++k)
            {
                const auto expect = before(i * p.tsize + k) + sim.predictions(some(i) * p.tsize + k);
                if (!vf::close(outputs(i * p.tsize + k), expect, 1e-12, 1e-12))
                {
                    c.fail("prediction-not-additive-or-not-per-sample",
                           id + ": predict on an arbitrary sample list must ADD, per sample, the value predicted for that sample alone");
                    break;
                }
            }
        }
    }
    if (c.failed())
    {
        return;
    }
    // single-feature learners: zero when the selected feature is missing; equals the table of the group reported by split()
    const auto all = arange(0, total);
    if (const auto* single = dynamic_cast<const single_feature_wlearner_t*>(&learner))
    {
        const auto f       = single->feature();
        const auto feature = dataset.feature(f);
        std::vector<bool> given(static_cast<size_t>(total), true);
        if (feature.is_scalar())
        {
            scalar_mem_t b;
            const auto   v = dataset.select(all, f, b);
            for (tensor_size_t i = 0; i < total; ++i)
            {
                given[static_cast<size_t>(i)] = std::isfinite(v(i));
            }
        }
        else if (feature.is_sclass())
        {
            sclass_mem_t b;
            const auto   v = dataset.select(all, f, b);
            for (tensor_size_t i = 0; i < total; ++i)
            {
                given[static_cast<size_t>(i)] = v(i) >= 0;
            }
        }
        else if (feature.is_mclass())
        {
            mclass_mem_t b;
            const auto   v = dataset.select(all, f, b);
            for (tensor_size_t i = 0; i < total; ++i)
            {
                given[static_cast<size_t>(i)] = v(i, 0) >= 0;
            }
        }
        const auto cluster = learner.split(dataset, all);
        const auto& tables = single->tables();
        const bool table_like = id == "stump" || id.find("table") != string_t::npos;
        for (tensor_size_t i = 0; i < total && !c.failed(); ++i)
        {
            const auto g = cluster.group(i);
            for (tensor_size_t k = 0; k < p.tsize; ++k)
            {
                const auto v = sim.predictions(i * p.tsize + k);
                if (!given[static_cast<size_t>(i)] && v != 0.0)
                {
                    c.fail("prediction-for-missing-value", id + ": non-zero prediction for a sample whose selected feature is missing");
                    break;
                }
                if (!given[static_cast<size_t>(i)] && g >= 0)
                {
                    c.fail("split-for-missing-value", id + ": split() assigns a group to a sample whose selected feature is missing");
                    break;
                }
                if (table_like)
                {
                    const auto expect = g >= 0 ? tables(g * p.tsize + k) : 0.0;
                    if (g >= tables.size<0>() || vf::bits(v) != vf::bits(expect + 0.0))
                    {
                        if (!(g < tables.size<0>() && v == expect))
                        {
                            c.fail("prediction-not-group-table", id + ": prediction differs from the table of the group reported by split()");
                            break;
                        }
                    }
                }
                else if (g < 0 && v != 0.0)
                {
                    c.fail("prediction-not-group-table", id + ": non-zero prediction for a sample that split() leaves unassigned");
                    break;
                }
            }
        }
        c.probe("single_feature_clauses");
    }
    if (c.failed())
    {
        return;
    }
    // scale(s): predictions multiply by s (one factor, or one per group)
    {
        auto       scaled = learner.clone();
        const auto cluster = scaled->split(dataset, all);
        const auto groups  = cluster.groups();
        const bool per_group = groups > 1 && r.coin(0.6);
        vector_t   factors(per_group ? groups : 1);
        for (tensor_size_t g = 0; g < factors.size(); ++g)
        {
            factors(g) = r.coin(0.1) ? 0.0 : r.real(0.1, 3.0);
        }
        bool scale_threw = false;
        try
        {
            scaled->scale(factors);
        }
        catch (const std::exception&)
        {
            scale_threw = true; // some learners reject per-group factors: not covered by the statement
        }
        if (!scale_threw)
        {
            const auto sp = scaled->predict(dataset, all);
            // rounding: affine / hinge predictions are sums of terms (w * x + b) that may cancel, so the error of a scaled
            // prediction is relative to the magnitude of the TERMS, not of the result
            double term = 0.0;
            for (tensor_size_t i = 0; i < sim.predictions.size(); ++i)
            {
                term = std::max(term, std::fabs(sim.predictions(i)));
            }
            if (const auto* single = dynamic_cast<const single_feature_wlearner_t*>(&learner))
            {
                double tmax = 0.0, xmax = 1.0;
                for (tensor_size_t i = 0; i < single->tables().size(); ++i)
                {
                    tmax = std::max(tmax, std::fabs(single->tables()(i)));
                }
                if (dataset.feature(single->feature()).is_scalar())
                {
                    scalar_mem_t b;
                    const auto   v = dataset.select(all, single->feature(), b);
                    for (tensor_size_t i = 0; i < total; ++i)
                    {
                        if (std::isfinite(v(i)))
                        {
                            xmax = std::max(xmax, std::fabs(v(i)));
                        }
                    }
                }
                term = std::max(term, tmax * xmax);
            }
            const double smax = factors.max();
            for (tensor_size_t i = 0; i < total && !c.failed(); ++i)
            {
                const auto g = cluster.group(i);
                const auto s = factors(per_group ? std::max<tensor_size_t>(g, 0) : 0);
                for (tensor_size_t k = 0; k < p.tsize; ++k)
                {
                    const auto expect = (per_group && g < 0) ? 0.0 : s * sim.predictions(i * p.tsize + k);
                    if (!vf::close(sp(i * p.tsize + k), expect, 1e-12, 1e-13 + 1e-12 * term * std::max(1.0, smax)))
                    {
                        c.fail("scale-not-multiplicative", id + ": scale(" + std::string(per_group ? "per group" : "scalar") + ") does not multiply the predictions");
                        break;
                    }
                }
            }
            c.probe(per_group ? "scale_per_group" : "scale_scalar");
        }
    }
    if (c.failed())
    {
        return;
    }
    // merge: the sum of the predictions of a list of learners is unchanged
    {
        rwlearners_t list;
        list.emplace_back(learner.clone());
        list.emplace_back(learner.clone());
        // a second, different learner of the same kind (other gradients) and one of another kind
        problem_t q;
        q.source    = std::make_unique<vf::sim_datasource_t>(*p.source);
        q.samples   = p.samples;
        q.tsize     = p.tsize;
        q.gradients = p.gradients;
        for (tensor_size_t i = 0; i < q.gradients.size(); ++i)
        {
            q.gradients(i) = r.real(-1.0, 1.0);
        }
        auto other = fit_once(q, id, criterion, c.cfg.cores, pool, depth);
        if (other.fitted)
        {
            list.emplace_back(std::move(other.learner));
        }
        auto third = fit_once(q, r.pick(ids), criterion, c.cfg.cores, pool, depth);
        if (third.fitted)
        {
            list.emplace_back(std::move(third.learner));
        }
        simrt_set_cores(c.cfg.cores);
        tensor4d_t before(cat_dims(total, dataset.target_dims()));
        before.zero();
        for (const auto& w : list)
        {
            w->predict(dataset, all, before.tensor());
        }
        const auto count = list.size();
        wlearner::merge(list);
        tensor4d_t after(cat_dims(total, dataset.target_dims()));
        after.zero();
        for (const auto& w : list)
        {
            w->predict(dataset, all, after.tensor());
        }
        double worst_merge = 0.0;
        if (!close_tensor(before, after, 1e-10, worst_merge))
        {
            c.fail("merge-changes-predictions", id + ": merging " + std::to_string(count) + " learners into " + std::to_string(list.size()) +
                                                    " changed the sum of their predictions by " + std::to_string(worst_merge) + " relative");
        }
        if (list.size() < count)
        {
            c.probe("merge_merged_something");
        }
    }
    if (c.failed())
    {
        return;
    }
    // a tree of depth 1 equals a stump
    if (id == "stump" || (id == "dtree" && depth == 1))
    {
        // the other one of the pair, fitted on the same data; predictions are compared on ALL samples of the dataset, also those
        // outside the fitted subset (their values may sit exactly on the threshold)
        const auto tree = fit_once(p, id == "stump" ? "dtree" : "stump", criterion, c.cfg.cores, pool, 1);
        if (tree.fitted == sim.fitted && tree.fitted)
        {
            double w = 0.0;
            if (!close_tensor(tree.predictions, sim.predictions, 1e-12, w))
            {
                c.fail("depth1-tree-not-stump", "a decision tree of depth 1 predicts differently from the stump fitted on the same data (" + std::to_string(w) + " relative)");
            }
            c.probe("depth1_tree_vs_stump");
        }
    }
    c.dig(sim.score);
}

void run(ctx_t& c)
{
    c.begin_sim(static_cast<int>(c.knob("max_cores", 16)));
    body(c);
    c.end_sim();
}
} // namespace

int main(int argc, char** argv)
{
    return vf::worker_main(argc, argv, "C10", run, [] { vf::warm_factories(); });
}
